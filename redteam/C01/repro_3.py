"""C01: a known symbolic-expression attribute given by its number (which the
constructor's type annotation AttributesCtorType explicitly allows) comes back
as the enum member; original and loaded IR are not deep_eq in either direction."""
import io, sys
sys.path.insert(0, "/tmp/mutkit")
import gtirb_from_repo
gtirb = gtirb_from_repo.load()
from gtirb.proto import SymbolicExpression_pb2

ir = gtirb.IR()
m = gtirb.Module(name="m", ir=ir)
s = gtirb.Section(name="s", module=m)
bi = gtirb.ByteInterval(size=8, contents=b"\0" * 8, section=s)
sym = gtirb.Symbol("f", payload=0, module=m)
plt = SymbolicExpression_pb2.SymAttribute.Value("PLT")       # == 4, a SymAttribute.ValueType
bi.symbolic_expressions[0] = gtirb.SymAddrConst(0, sym, {plt, 99999})

buf = io.BytesIO(); ir.save_protobuf_file(buf); buf.seek(0)
loaded = gtirb.IR.load_protobuf_file(buf)
a = bi.symbolic_expressions[0].attributes
b = next(iter(loaded.byte_intervals)).symbolic_expressions[0].attributes
print("original attributes:", a)
print("loaded attributes  :", b)
print("ir.deep_eq(loaded) =", ir.deep_eq(loaded), " loaded.deep_eq(ir) =", loaded.deep_eq(ir))
if a != b or not ir.deep_eq(loaded) or not loaded.deep_eq(ir):
    print("VIOLATION: attribute values differ and the IRs are not deep_eq "
          "(the unknown number 99999 is kept as a number, the known number 4 is not)")
    sys.exit(1)
sys.exit(0)
