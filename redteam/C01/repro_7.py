"""C01 (scope): two attached nodes that share a UUID (uuid= is a public
constructor argument) save without complaint; load rejects the file. The claim's
list of preconditions does not exclude this."""
import io, sys, uuid
sys.path.insert(0, "/tmp/mutkit")
import gtirb_from_repo
gtirb = gtirb_from_repo.load()

ir = gtirb.IR()
m = gtirb.Module(name="m", ir=ir)
s = gtirb.Section(name="s", module=m)
bi = gtirb.ByteInterval(size=2, contents=b"ab", section=s)
u = uuid.uuid4()
gtirb.CodeBlock(size=1, offset=0, byte_interval=bi, uuid=u)
gtirb.DataBlock(size=1, offset=1, byte_interval=bi, uuid=u)
buf = io.BytesIO(); ir.save_protobuf_file(buf); buf.seek(0)
try:
    gtirb.IR.load_protobuf_file(buf)
except Exception as e:  # noqa
    print("VIOLATION: saved without error, load raises %s: %s" % (type(e).__name__, e))
    sys.exit(1)
sys.exit(0)
