"""C18: deep_eq depends on collection iteration order as soon as two siblings
share a UUID (sort by UUID + zip; ties keep the iteration order). Two IRs
with the same content, built independently, compare unequal."""
import sys
import uuid

sys.path.insert(0, "/tmp/mutkit")
import gtirb_from_repo

gtirb = gtirb_from_repo.load()
U = lambda n: uuid.UUID(int=n)


def build(flip):
    ir = gtirb.IR(uuid=U(1))
    mods = [gtirb.Module(name="a", uuid=U(2)), gtirb.Module(name="b", uuid=U(2))]
    if flip:
        mods.reverse()
    ir.modules.extend(mods)
    return ir


def build_cfg(flip):
    # A block is replaced by a new object with the same UUID; the CFG (which
    # never drops edges on its own) still holds an edge of the old object.
    ir = gtirb.IR(uuid=U(1))
    m = gtirb.Module(name="m", uuid=U(2), ir=ir)
    s = gtirb.Section(uuid=U(3), module=m)
    bi = gtirb.ByteInterval(uuid=U(4), size=8, section=s)
    t = gtirb.CodeBlock(uuid=U(5), byte_interval=bi)
    old = gtirb.CodeBlock(uuid=U(6), size=1, byte_interval=bi)
    bi.blocks.discard(old)
    new = gtirb.CodeBlock(uuid=U(6), size=2, byte_interval=bi)
    edges = [gtirb.Edge(old, t), gtirb.Edge(new, t)]
    if flip:
        edges.reverse()
    ir.cfg.update(edges)
    return ir


bad = False
for name, f in (("modules list", build), ("CFG edges", build_cfg)):
    same_order = f(0).deep_eq(f(0))
    other_order = f(0).deep_eq(f(1)), f(1).deep_eq(f(0))
    print("%s: same insertion order -> %s, reversed insertion order -> %s"
          % (name, same_order, other_order))
    if same_order and other_order != (True, True):
        bad = True

# set-valued children: the outcome depends on object addresses
outcomes = set()
for _ in range(40):
    def mk():
        m = gtirb.Module(name="m", uuid=U(2))
        for n in ("a", "b"):
            m.sections.add(gtirb.Section(name=n, uuid=U(3)))
        return m
    outcomes.add(mk().deep_eq(mk()))
print("two sections sharing a UUID, identical construction, 40 tries ->", outcomes)
if outcomes != {True}:
    bad = True

if bad:
    print("VIOLATION: deep_eq is sensitive to collection iteration order "
          "(independently built IRs with identical content are not deep_eq)")
    sys.exit(1)
sys.exit(0)
