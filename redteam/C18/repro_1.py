"""C18: an IR whose symbolic expression carries a KNOWN attribute as a raw
protobuf integer (an argument form the constructor's type, AttributesCtorType,
explicitly allows and the loader itself produces for unknown values) is not
deep_eq to its own save/load copy."""
import io
import sys

sys.path.insert(0, "/tmp/mutkit")
import gtirb_from_repo

gtirb = gtirb_from_repo.load()
A = gtirb.SymbolicExpression.Attribute

ir = gtirb.IR()
m = gtirb.Module(name="m", ir=ir)
s = gtirb.Section(name=".text", module=m)
bi = gtirb.ByteInterval(size=8, contents=b"\0" * 8, section=s)
sym = gtirb.Symbol("f", module=m)
# 4 is SymAttribute.PLT; 0xBEEF is an unknown attribute (round-trips fine).
bi.symbolic_expressions[0] = gtirb.SymAddrConst(0, sym, {A.PLT.value, 0xBEEF})

buf = io.BytesIO()
ir.save_protobuf_file(buf)
buf.seek(0)
copy = gtirb.IR.load_protobuf_file(buf)

before = bi.symbolic_expressions[0].attributes
after = next(copy.byte_intervals).symbolic_expressions[0].attributes
ok = ir.deep_eq(copy) and copy.deep_eq(ir)
print("attributes before save:", before)
print("attributes after load: ", after)
print("ir.deep_eq(load(save(ir))) =", ir.deep_eq(copy), "/ reverse =", copy.deep_eq(ir))
if not ok:
    print("VIOLATION: a save/load copy is not deep_eq to its original "
          "(known attribute given as raw int 4 comes back as Attribute.PLT; "
          "deep_eq compares the raw sets)")
    sys.exit(1)
sys.exit(0)
