# Valid type name with many sibling parameters -> RecursionError (one Python frame per ',').
import io, sys; sys.path.insert(0, "/tmp/mutkit")
import gtirb_from_repo
gtirb = gtirb_from_repo.load()
from gtirb.serialization import Serialization, TypeNameError

N = 1200
name = "tuple<" + ",".join(["int64_t"] * N) + ">"
bad = []
try:
    t = Serialization._parse_type(name)
    if not (t.name == "tuple" and len(t.subtypes) == N and all(s.name == "int64_t" and s.subtypes == () for s in t.subtypes)):
        bad.append("wrong tree")
except TypeNameError:
    bad.append("_parse_type: valid %d-parameter name rejected with TypeNameError" % N)
except BaseException as e:
    bad.append("_parse_type: valid %d-parameter name raised %s" % (N, type(e).__name__))
# the same through the public API: a table of that type cannot be saved
ir = gtirb.IR()
ir.aux_data["wide"] = gtirb.AuxData(tuple(range(N)), name)
try:
    ir.save_protobuf_file(io.BytesIO())
except BaseException as e:
    bad.append("IR.save_protobuf_file with AuxData(type_name='tuple<int64_t x %d>') raised %s" % (N, type(e).__name__))
if bad:
    print("VIOLATION (recursion limit %d):" % sys.getrecursionlimit()); [print("  " + b) for b in bad]; sys.exit(1)
print("ok"); sys.exit(0)
