"""C06 finding 2: the iterable returned by Section.byte_intervals_on/at is a generator that has
captured the section's interval tree object but not yet searched it. If it is consumed after
further edits it returns a set that a scan selects neither in the structure as it was when the
lookup was made nor in the structure as it is when the result is read; whether it reflects the
edits at all depends on whether some other (read-only) lookup ran in between; and the section and
its module give different answers to the same deferred question.

Run: VERIF_REPO=/tmp/hunt_C06 /venv/bin/python repro_2.py
"""
import sys

sys.path.insert(0, "/tmp/mutkit")
import gtirb_from_repo

gtirb = gtirb_from_repo.load()


def scan_on(section, p):
    return sorted(
        names[id(x)] for x in section.byte_intervals
        if x.address is not None and x.size and x.address <= p < x.address + x.size
    )


def scan_at(section, r):
    return sorted(names[id(x)] for x in section.byte_intervals if x.address is not None and x.address in r)


def world():
    ir = gtirb.IR()
    m = gtirb.Module(name="m", ir=ir)
    s = gtirb.Section(name="s", module=m)
    fill = [gtirb.ByteInterval(address=1000 + i, size=1, section=s) for i in range(6)]
    a = gtirb.ByteInterval(address=0, size=10, section=s)
    b = gtirb.ByteInterval(address=0, size=10, section=s)
    c = gtirb.ByteInterval(address=50, size=10, section=s)
    names.clear()
    names.update({id(a): "a", id(b): "b", id(c): "c"})
    names.update({id(f): "fill" for f in fill})
    return ir, m, s, a, b, c


names = {}
problems = []

# (1) 'on': result is neither the call-time nor the read-time selection
ir, m, s, a, b, c = world()
res = s.byte_intervals_on(5)
at_call = scan_on(s, 5)                 # ['a', 'b']
a.address = 100                         # a leaves the query point (moves up)
b.address, b.size = 1, 2                # b leaves the query point (now below it)
c.address = 3                           # c arrives on the query point
at_read = scan_on(s, 5)                 # ['c']
got = sorted(names[id(x)] for x in res)
print("(1) on(5): scan at call %s, scan at read %s, result %s" % (at_call, at_read, got))
if got not in (at_call, at_read):
    problems.append("byte_intervals_on(5) read late = %s: neither the scan at call time %s nor at read time %s"
                    % (got, at_call, at_read))

# (2) 'at': same
ir, m, s, a, b, c = world()
q = range(0, 8)
res = s.byte_intervals_at(q)
at_call = scan_at(s, q)                 # ['a', 'b']
a.address = 100
b.address = 20
c.address = 3
at_read = scan_at(s, q)                 # ['c']
got = sorted(names[id(x)] for x in res)
print("(2) at(range(0,8)): scan at call %s, scan at read %s, result %s" % (at_call, at_read, got))
if got not in (at_call, at_read):
    problems.append("byte_intervals_at(range(0,8)) read late = %s: neither the scan at call time %s nor at read time %s"
                    % (got, at_call, at_read))

# (3) same edit history, result differs only because an unrelated read-only lookup ran in between
outs = []
for extra_lookup in (False, True):
    ir, m, s, a, b, c = world()
    list(s.byte_intervals_on(0))
    res = s.byte_intervals_on(5)
    a.address = 100
    c.address = 3
    if extra_lookup:
        list(s.byte_intervals_on(0))    # read-only
    outs.append(sorted(names[id(x)] for x in res))
print("(3) same edits; without / with an intervening read-only lookup:", outs[0], "/", outs[1])
if outs[0] != outs[1]:
    problems.append("deferred byte_intervals_on(5) gives %s, but %s if another lookup is made before reading it"
                    % (outs[0], outs[1]))

# (4) section and its (single-section) module answer the same deferred question differently
ir, m, s, a, b, c = world()
rs = s.byte_intervals_on(5)
rm = m.byte_intervals_on(5)
a.address = 100
b.address = 100
gs = sorted(names[id(x)] for x in rs)
gm = sorted(names[id(x)] for x in rm)
print("(4) deferred on(5): section %s, module %s" % (gs, gm))
if gs != gm:
    problems.append("deferred on(5): section yields %s, its only module yields %s" % (gs, gm))

# (5) a removed interval is still reported as lying on the section
ir, m, s, a, b, c = world()
list(s.byte_intervals_on(0))
res = s.byte_intervals_on(5)
a.section = None
b.address = 1
b.size = 2
got = sorted(names[id(x)] for x in res)
print("(5) on(5) after removing a and shrinking b below 5:", got, "(call-time scan ['a','b'], read-time scan [])")
if got not in (["a", "b"], []):
    problems.append("deferred on(5) = %s: contains the removed non-member a but not b" % got)

if problems:
    print("C06 VIOLATED:")
    for p in problems:
        print("  -", p)
    sys.exit(1)
print("no violation")
sys.exit(0)
