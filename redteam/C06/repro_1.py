"""C06 finding 1: a removal that fails half-way (KeyError from the IR's UUID table) leaves
Section._interval_index out of step with Section.byte_intervals, so lookups and the section
extent stop matching a fresh scan.

Realistic route to the failure: two copies of one IR in one process (copy.deepcopy, or the same
file loaded twice) and an interval moved from the copy into the original, so that the original
IR holds two distinct ByteIntervals with one UUID.

Run: VERIF_REPO=/tmp/hunt_C06 /venv/bin/python repro_1.py
"""
import copy
import sys

sys.path.insert(0, "/tmp/mutkit")
import gtirb_from_repo

gtirb = gtirb_from_repo.load()

ir = gtirb.IR()
m = gtirb.Module(name="m", ir=ir)
s = gtirb.Section(name=".text", module=m)
bis = [gtirb.ByteInterval(address=0x1000 + 0x10 * i, size=0x10, section=s) for i in range(8)]
b = bis[0]                                    # lowest interval, [0x1000, 0x1010)

ir2 = copy.deepcopy(ir)                       # same effect: save ir and load the file a second time
twin = next(x for x in ir2.byte_intervals if x.uuid == b.uuid)

s.byte_intervals.add(twin)                    # move the copy's interval into the original section
list(s.byte_intervals_on(0))                  # any lookup: the index now exists
twin.section = None                           # take it out again: fine (and drops the UUID-table entry)

try:
    s.byte_intervals.discard(b)               # fails half-way
    raised = None
except KeyError as e:
    raised = e

# What a fresh scan of the current structure selects
members = list(s.byte_intervals)
scan_on = [x for x in members if x.address is not None and x.size and x.address <= 0x1004 < x.address + x.size]
scan_at = [x for x in members if x.address == 0x1000]
scan_addr = min(x.address for x in members) if members and all(x.address is not None for x in members) else None
scan_size = (max(x.address + x.size for x in members) - scan_addr) if scan_addr is not None else None

got_on = list(s.byte_intervals_on(0x1004))
got_at = list(s.byte_intervals_at(0x1000))
got_mod = list(m.byte_intervals_on(0x1004))
got_ir = list(ir.byte_intervals_at(range(0x1000, 0x1001)))
got_secs = list(m.sections_on(0x1004))

problems = []
if raised is not None:
    print("discard raised:", repr(raised))
print("b still a member of s.byte_intervals:", b in s.byte_intervals, "| b.section:", b.section)
if set(map(id, got_on)) != set(map(id, scan_on)):
    problems.append("section.byte_intervals_on(0x1004) = %d result(s), scan selects %d" % (len(got_on), len(scan_on)))
if set(map(id, got_at)) != set(map(id, scan_at)):
    problems.append("section.byte_intervals_at(0x1000) = %d result(s), scan selects %d" % (len(got_at), len(scan_at)))
if set(map(id, got_mod)) != set(map(id, scan_on)):
    problems.append("module.byte_intervals_on(0x1004) = %d result(s), scan selects %d" % (len(got_mod), len(scan_on)))
if set(map(id, got_ir)) != set(map(id, scan_at)):
    problems.append("ir.byte_intervals_at(range(0x1000,0x1001)) = %d result(s), scan selects %d" % (len(got_ir), len(scan_at)))
if (s.address, s.size) != (scan_addr, scan_size):
    problems.append("section.address/size = %r/%r, scan gives %r/%r" % (s.address, s.size, scan_addr, scan_size))
if scan_on and s not in got_secs:
    problems.append("module.sections_on(0x1004) misses the section whose member interval covers 0x1004")

# second attempt does not behave like the first, and cannot repair the state
b.section = None                              # silently does nothing: b._section is already None
still = b in s.byte_intervals
try:
    s.byte_intervals.discard(b)
    second = "no error"
except KeyError:
    second = "KeyError again"
if still:
    problems.append("after the failed call b.section is None but b is still in s.byte_intervals; "
                    "`b.section = None` is a no-op and a second discard gives: " + second)

if problems:
    print("C06 VIOLATED:")
    for p in problems:
        print("  -", p)
    sys.exit(1)
print("no violation")
sys.exit(0)
