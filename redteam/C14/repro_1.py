"""C14 clause 3: a table whose type involves a name the API has no codec for must keep its
bytes across save even after its data was read.  It does not when decoding never *reaches*
the unknown name (empty container of the unknown type, variant alternative not taken):
the value is then decoded normally and re-encoded on save (reordered / de-duplicated / normalised).

run:  VERIF_REPO=/tmp/hunt_C14 /venv/bin/python repro_1.py
"""
import io, struct, sys
sys.path.insert(0, "/tmp/mutkit")
import gtirb_from_repo
gtirb = gtirb_from_repo.load()
from gtirb.proto import IR_pb2


def u64(n): return struct.pack("<Q", n)
def s(x): return u64(len(x.encode())) + x.encode()


CASES = {
    # canonical bytes, set {1, 8} listed as 1, 8; empty sequence of the unknown type
    "order": ("tuple<set<int64_t>,sequence<foo>>", u64(2) + u64(1) + u64(8) + u64(0)),
    # set listing "x" twice (decodable, non-canonical), variant alternative 1 (string) taken
    "dup": ("tuple<set<string>,variant<foo,string>>", u64(2) + s("x") + s("x") + u64(1) + s("v")),
    # bool stored as 0x02, empty mapping to the unknown type
    "bool": ("tuple<bool,mapping<string,foo>>", b"\x02" + u64(0)),
    # control: unknown name reached while decoding -> kept (this is the behaviour promised)
    "control": ("tuple<set<string>,sequence<foo>>", u64(2) + s("x") + s("x") + u64(1) + b"\xde\xad"),
}

p = gtirb.IR()._to_protobuf()
for k, (t, b) in CASES.items():
    p.aux_data[k].type_name = t
    p.aux_data[k].data = b
blob = b"GTIRB\0\0" + bytes([gtirb.version.PROTOBUF_VERSION]) + p.SerializeToString()

bad = []
for gen in range(2):
    ir = gtirb.IR.load_protobuf_file(io.BytesIO(blob))
    for k in CASES:
        ir.aux_data[k].data          # the only operation: read
    out = io.BytesIO()
    ir.save_protobuf_file(out)
    blob = out.getvalue()
    q = IR_pb2.IR()
    q.ParseFromString(blob[8:])
    for k, (t, b) in CASES.items():
        got = (q.aux_data[k].type_name, q.aux_data[k].data)
        if got != (t, b):
            bad.append("generation %d, table %r of type %s (unknown name 'foo'): read then saved\n"
                       "   loaded bytes %r\n   saved bytes  %r" % (gen, k, t, b, got[1]))
    if bad:
        break
if bad:
    print("VIOLATION: bytes of partially-unknown tables changed after a read:")
    print("\n".join(bad))
    sys.exit(1)
print("ok: all partially-unknown tables kept their bytes")
