"""C08 finding 3: the set/mapping encoder writes len(python collection) as the element count and every python
element, even when two python elements have the SAME wire encoding (float32 rounding; a Node next to its own
UUID; Offset(node,d) next to Offset(node.uuid,d)). The bytes then announce N elements but contain a duplicate,
i.e. they are not the encoding of any set/mapping; decoders silently collapse them (and for mappings disagree on
which value wins: std::map::emplace in AuxData.hpp keeps the first, Python dict / Java HashMap.put keep the last).
Run: VERIF_REPO=/tmp/hunt_C08 /venv/bin/python repro_3.py"""
import io, struct, sys
sys.path.insert(0, "/tmp/mutkit")
import gtirb_from_repo
gtirb = gtirb_from_repo.load()
S = gtirb.AuxData.serializer
def enc(tn, v):
    b = io.BytesIO(); S.encode(b, v, tn); return b.getvalue()
ir = gtirb.IR(); m = gtirb.Module(name="m", ir=ir)
bad = 0
def check(tn, v, elem_size, show=True):
    global bad
    raw = enc(tn, v)
    count = struct.unpack("<Q", raw[:8])[0]
    back = S.decode(raw, tn, ir.get_by_uuid)
    again = enc(tn, back)
    print("%s value with %d python elements -> bytes %s" % (tn, len(v), raw.hex()))
    print("   announced count %d, decoded size %d, re-encoding of the decoded value: %s" % (count, len(back), again.hex()))
    if count != len(back) or again != raw:
        bad += 1; print("   VIOLATION: the count on the wire is not the element count of the set/mapping these bytes denote")
check("set<float>", {1.0, 1.0000000001}, 4)                       # both round to float32 0x3f800000
check("mapping<float,string>", {1.0: "first", 1.0000000001: "second"}, 4)
check("set<UUID>", {m, m.uuid}, 16)                                # Node and plain UUID are both legal UUID entries
check("mapping<UUID,uint64_t>", {m: 1, m.uuid: 2}, 16)
check("set<Offset>", {gtirb.Offset(m, 0), gtirb.Offset(m.uuid, 0)}, 24)
sys.exit(1 if bad else 0)
