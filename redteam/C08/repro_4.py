"""C08 finding 4: the Java side decodes this API's bytes for mapping<Offset,...> (the sanctioned "comments"/"padding"
tables, AuxDataSchemas uses MapCodec(OffsetCodec, ..., HashMap::new)) into a HashMap whose keys cannot be looked up:
com.grammatech.gtirb.Offset (and tuple.Tuple1-5, variant.Variant2/3/11) override equals() but not hashCode(), so
decoded.get(equalOffset) is null and decoded.equals(expectedMap) is false -> not "the same value".
Run: VERIF_REPO=/tmp/hunt_C08 /venv/bin/python repro_4.py   (needs javac/java; exits 0 with SKIP otherwise)"""
import glob, io, os, shutil, subprocess, sys, tempfile, uuid
sys.path.insert(0, "/tmp/mutkit")
import gtirb_from_repo
gtirb = gtirb_from_repo.load()
REPO = os.environ.get("VERIF_REPO", "/tmp/hunt_C08")
if not (shutil.which("javac") and shutil.which("java")):
    print("SKIP: no javac/java"); sys.exit(0)
J = os.path.join(REPO, "java/com/grammatech/gtirb")
tmp = tempfile.mkdtemp(prefix="_javabuild_", dir=os.path.dirname(os.path.abspath(__file__)))
try:
    os.makedirs(os.path.join(tmp, "stub/com/google/protobuf"))
    open(os.path.join(tmp, "stub/com/google/protobuf/ByteString.java"), "w").write("""package com.google.protobuf;
public final class ByteString { private final byte[] b; private ByteString(byte[] b){this.b=b;}
 public static final ByteString EMPTY = new ByteString(new byte[0]);
 public static ByteString copyFrom(byte[] x){return new ByteString(x.clone());}
 public byte[] toByteArray(){return b.clone();} }""")
    open(os.path.join(tmp, "P.java"), "w").write("""import com.grammatech.gtirb.Offset; import com.grammatech.gtirb.auxdatacodec.*; import java.io.*; import java.util.*;
public class P { public static void main(String[] a) throws Exception {
  byte[] b = new byte[a[0].length()/2]; for (int i=0;i<b.length;i++) b[i]=(byte)Integer.parseInt(a[0].substring(2*i,2*i+2),16);
  // exactly the codec AuxDataSchemas.comments is built from
  MapCodec<Offset,String> c = new MapCodec<>(new OffsetCodec(), new StringCodec(), HashMap::new);
  Map<Offset,String> m = c.decode(new ByteArrayInputStream(b));
  Offset k = m.keySet().iterator().next();
  Offset same = new Offset(k.getElementId(), k.getDisplacement());
  Map<Offset,String> expected = new HashMap<>(); expected.put(same, m.get(k));
  System.out.println(m.size() + " " + k.equals(same) + " " + m.get(same) + " " + m.containsKey(same) + " " + m.equals(expected)); } }""")
    srcs = [os.path.join(tmp, "stub/com/google/protobuf/ByteString.java"), J + "/Util.java", J + "/Offset.java"] + \
        glob.glob(J + "/tuple/*.java") + glob.glob(J + "/variant/*.java") + glob.glob(J + "/auxdatacodec/*.java") + [os.path.join(tmp, "P.java")]
    subprocess.run(["javac", "-nowarn", "-d", os.path.join(tmp, "out")] + srcs, check=True, capture_output=True)
    b = io.BytesIO()
    gtirb.AuxData.serializer.encode(b, {gtirb.Offset(uuid.UUID(int=5), 7): "note"}, "mapping<Offset,string>")
    size, key_equals, got, contains, map_equals = subprocess.run(["java", "-cp", os.path.join(tmp, "out"), "P", b.getvalue().hex()], check=True, capture_output=True).stdout.decode().split()
    print("python value {Offset(uuid5,7): 'note'} -> bytes", b.getvalue().hex())
    print("java decoded map: size=%s; decodedKey.equals(new Offset(same id, same disp))=%s; map.get(that equal key)=%s; containsKey=%s; map.equals(independently built equal map)=%s" % (size, key_equals, got, contains, map_equals))
    if got != "note" or map_equals != "true":
        print("VIOLATION: the Java-decoded mapping does not behave as / compare equal to the value that was encoded (Offset lacks hashCode)"); sys.exit(1)
    sys.exit(0)
finally:
    shutil.rmtree(tmp, ignore_errors=True)
