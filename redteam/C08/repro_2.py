"""C08 finding 2: the repository's Java codec decodes this API's UUID bytes to a DIFFERENT UUID value
(each 8-byte half byte-reversed), and Java-encoded UUID bytes decode in Python to a different UUID.
Run: VERIF_REPO=/tmp/hunt_C08 /venv/bin/python repro_2.py   (needs javac/java; exits 0 with SKIP otherwise)"""
import glob, io, os, shutil, subprocess, sys, tempfile, uuid
sys.path.insert(0, "/tmp/mutkit")
import gtirb_from_repo
gtirb = gtirb_from_repo.load()
REPO = os.environ.get("VERIF_REPO", "/tmp/hunt_C08")
if not (shutil.which("javac") and shutil.which("java")):
    print("SKIP: no javac/java"); sys.exit(0)
J = os.path.join(REPO, "java/com/grammatech/gtirb")
tmp = tempfile.mkdtemp(prefix="_javabuild_", dir=os.path.dirname(os.path.abspath(__file__)))
try:
    os.makedirs(os.path.join(tmp, "stub/com/google/protobuf"))
    open(os.path.join(tmp, "stub/com/google/protobuf/ByteString.java"), "w").write("""package com.google.protobuf;
public final class ByteString { private final byte[] b; private ByteString(byte[] b){this.b=b;}
 public static final ByteString EMPTY = new ByteString(new byte[0]);
 public static ByteString copyFrom(byte[] x){return new ByteString(x.clone());}
 public byte[] toByteArray(){return b.clone();} }""")   # Util.java only needs these three members
    open(os.path.join(tmp, "P.java"), "w").write("""import com.grammatech.gtirb.auxdatacodec.*; import java.io.*; import java.util.*;
public class P { public static void main(String[] a) throws Exception {
  byte[] b = new byte[16]; for (int i=0;i<16;i++) b[i]=(byte)Integer.parseInt(a[0].substring(2*i,2*i+2),16);
  System.out.println(new UuidCodec().decode(new ByteArrayInputStream(b)));
  ByteArrayOutputStream o = new ByteArrayOutputStream(); new UuidCodec().encode(o, UUID.fromString(a[1]));
  StringBuilder sb = new StringBuilder(); for (byte x : o.toByteArray()) sb.append(String.format("%02x", x)); System.out.println(sb); } }""")
    srcs = [os.path.join(tmp, "stub/com/google/protobuf/ByteString.java"), J + "/Util.java", J + "/Offset.java"] + \
        glob.glob(J + "/tuple/*.java") + glob.glob(J + "/variant/*.java") + glob.glob(J + "/auxdatacodec/*.java") + [os.path.join(tmp, "P.java")]
    subprocess.run(["javac", "-nowarn", "-d", os.path.join(tmp, "out")] + srcs, check=True, capture_output=True)
    u = uuid.UUID("00112233-4455-6677-8899-aabbccddeeff")
    b = io.BytesIO(); gtirb.AuxData.serializer.encode(b, u, "UUID"); raw = b.getvalue()
    out = subprocess.run(["java", "-cp", os.path.join(tmp, "out"), "P", raw.hex(), str(u)], check=True, capture_output=True).stdout.decode().split()
    java_decoded, java_encoded = out
    py_of_java = gtirb.AuxData.serializer.decode(bytes.fromhex(java_encoded), "UUID")
    print("Python value            :", u)
    print("Python bytes            :", raw.hex())
    print("Java decodes those to   :", java_decoded)
    print("Java encodes %s as: %s" % (u, java_encoded))
    print("Python decodes those to :", py_of_java)
    if java_decoded != str(u) or py_of_java != u:
        print("VIOLATION: Java and Python disagree on the UUID value carried by the same 16 bytes"); sys.exit(1)
    sys.exit(0)
finally:
    shutil.rmtree(tmp, ignore_errors=True)
