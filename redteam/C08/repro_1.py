"""C08 finding 1: valid wire bytes for set<T> / mapping<K,V> whose element/key type is a
sequence, set, mapping, variant (or a tuple containing one) cannot be decoded by the Python API.
Run: VERIF_REPO=/tmp/hunt_C08 /venv/bin/python repro_1.py"""
import io, struct, sys
sys.path.insert(0, "/tmp/mutkit")
import gtirb_from_repo
gtirb = gtirb_from_repo.load()
from gtirb.serialization import Variant
S = gtirb.AuxData.serializer
u64 = lambda n: struct.pack("<Q", n)

# bytes written by hand, straight from the documented format (what C++ std::set<std::vector<uint8_t>> etc. produce)
cases = {
    "set<sequence<uint8_t>>": u64(2) + (u64(2) + b"\x01\x02") + (u64(1) + b"\x03"),
    "mapping<sequence<uint8_t>,string>": u64(1) + (u64(2) + b"\x01\x02") + (u64(1) + b"x"),
    "set<set<uint8_t>>": u64(1) + (u64(1) + b"\x07"),
    "set<mapping<uint8_t,uint8_t>>": u64(1) + (u64(1) + b"\x01\x02"),
    "set<variant<uint8_t,string>>": u64(2) + (u64(0) + b"\x01") + (u64(1) + u64(1) + b"a"),
    "mapping<variant<uint8_t,string>,uint8_t>": u64(1) + (u64(1) + u64(1) + b"k") + b"\x07",
    "set<tuple<sequence<uint8_t>,string>>": u64(1) + (u64(1) + b"\x01") + (u64(1) + b"a"),
}
bad = 0
for tn, raw in cases.items():
    try:
        v = S.decode(raw, tn)
        print("ok   ", tn, "->", v)
    except Exception as e:
        bad += 1
        print("FAIL ", tn, "bytes", raw.hex(), "-> %s: %s" % (type(e).__name__, e))

# the API's own bytes for such a table cannot be read back from a saved file either
ir = gtirb.IR()
ir.aux_data["t"] = gtirb.AuxData({(1, 2), (3,)}, "set<sequence<uint8_t>>")
buf = io.BytesIO(); ir.save_protobuf_file(buf); buf.seek(0)
ir2 = gtirb.IR.load_protobuf_file(buf)
try:
    print("ok    reloaded table:", ir2.aux_data["t"].data)
except Exception as e:
    bad += 1
    print("FAIL  table saved by this API as set<sequence<uint8_t>> is unreadable after load: %s: %s" % (type(e).__name__, e))
if bad:
    print("%d violation(s): format-conforming bytes do not decode (expected the same value back)" % bad)
    sys.exit(1)
sys.exit(0)
