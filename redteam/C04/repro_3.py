"""C04 violation: ir.modules.insert(index, m) with an int index that does not
fit a C ssize_t (2**63, 2**64-1, -2**64). The move hooks run first (m leaves
its previous IR, m.ir names the new IR), then list.insert raises
OverflowError: m.ir names an IR whose list does not contain m, and every later
attempt to attach or detach m fails with ValueError.
Run: VERIF_REPO=/tmp/hunt_C04 /venv/bin/python repro_3.py
"""
import sys

sys.path.insert(0, "/tmp/mutkit")
import gtirb_from_repo

gtirb = gtirb_from_repo.load()
problems = []


def has(coll, x):
    return any(y is x for y in coll)


a, b = gtirb.IR(), gtirb.IR()
keep = gtirb.Module(name="keep", ir=a)
m = gtirb.Module(name="m", ir=b)
s = gtirb.Section(name=".text", module=m)

try:
    a.modules.insert(2 ** 63, m)
    err = None
except OverflowError as e:
    err = e
if (m.ir is a) != has(a.modules, m) or (m.ir is b) != has(b.modules, m):
    problems.append(
        "after a.modules.insert(2**63, m) raised %r: m.ir is a=%s, m in a.modules=%s, "
        "m.ir is b=%s, m in b.modules=%s"
        % (err, m.ir is a, has(a.modules, m), m.ir is b, has(b.modules, m))
    )
if has(a.sections, s) != (s.ir is a):
    problems.append(
        "derived accessors disagree: s.ir is a=%s but s in a.sections=%s"
        % (s.ir is a, has(a.sections, s))
    )
for label, op in (
    ("a.modules.append(m)", lambda: a.modules.append(m)),
    ("m.ir = b", lambda: setattr(m, "ir", b)),
    ("m.ir = None", lambda: setattr(m, "ir", None)),
):
    try:
        op()
    except Exception as e:
        problems.append("second attempt %s raises %s" % (label, type(e).__name__))

# the reference behaviour: a plain list raises too, but is left unchanged
ref = [1, 2]
try:
    ref.insert(2 ** 63, 3)
except OverflowError:
    pass
assert ref == [1, 2]

if problems:
    print("C04 VIOLATED (insert with an index >= 2**63):")
    for p in problems:
        print("  -", p)
    sys.exit(1)
print("no violation")
sys.exit(0)
