"""C04 violation: two distinct nodes that carry the same UUID under one IR.
Detaching the second one raises KeyError half-way through: the child's parent
attribute is already None but the child is still in the parent's collection.
A second attempt then gives the child two parents.
Run: VERIF_REPO=/tmp/hunt_C04 /venv/bin/python repro_1.py
"""
import copy
import sys
import uuid

sys.path.insert(0, "/tmp/mutkit")
import gtirb_from_repo

gtirb = gtirb_from_repo.load()
NIL = uuid.UUID(int=0)
problems = []


def has(coll, x):
    return any(y is x for y in coll)


def scenario(kind, make_parent, make_child, attr, coll):
    """two children with the nil UUID under one parent (inside an IR);
    detach both through the parent attribute, then re-home the second."""
    ir = gtirb.IR()
    parent, other = make_parent(ir), make_parent(ir)
    c1, c2 = make_child(NIL), make_child(NIL)
    setattr(c1, attr, parent)
    setattr(c2, attr, parent)
    setattr(c1, attr, None)  # fine
    try:
        setattr(c2, attr, None)
        err = None
    except KeyError as e:
        err = e
    in_coll = has(getattr(parent, coll), c2)
    names = getattr(c2, attr) is parent
    if in_coll != names:
        problems.append(
            "%s: after c2.%s = None raised %r: c2 in parent.%s is %s but "
            "c2.%s is parent is %s" % (kind, attr, err, coll, in_coll, attr, names)
        )
    try:
        setattr(c2, attr, other)  # the retry "succeeds"
    except Exception as e:  # pragma: no cover
        problems.append("%s: retry raised %r" % (kind, e))
    owners = [p for p in (parent, other) if has(getattr(p, coll), c2)]
    if len(owners) != 1:
        problems.append(
            "%s: after the retry c2 is in the collections of %d parents"
            % (kind, len(owners))
        )


def mk_module(ir):
    return gtirb.Module(name="m", ir=ir)


def mk_section(ir):
    return gtirb.Section(name="s", module=mk_module(ir))


def mk_interval(ir):
    return gtirb.ByteInterval(size=8, section=mk_section(ir))


scenario("module-section", mk_module, lambda u: gtirb.Section(name="x", uuid=u), "module", "sections")
scenario("module-symbol", mk_module, lambda u: gtirb.Symbol("x", uuid=u), "module", "symbols")
scenario("module-proxy", mk_module, lambda u: gtirb.ProxyBlock(uuid=u), "module", "proxies")
scenario("section-interval", mk_section, lambda u: gtirb.ByteInterval(size=1, uuid=u), "section", "byte_intervals")
scenario("interval-block", mk_interval, lambda u: gtirb.CodeBlock(size=1, uuid=u), "byte_interval", "blocks")

# IR-module relation, from the collection end
ir, ir2 = gtirb.IR(), gtirb.IR()
m1 = gtirb.Module(name="m1", uuid=NIL, ir=ir)
m2 = gtirb.Module(name="m2", uuid=NIL, ir=ir)
ir.modules.remove(m1)
try:
    ir.modules.remove(m2)
    err = None
except KeyError as e:
    err = e
if has(ir.modules, m2) != (m2.ir is ir):
    problems.append(
        "IR-module: after ir.modules.remove(m2) raised %r: m2 in ir.modules is "
        "%s but m2.ir is ir is %s" % (err, has(ir.modules, m2), m2.ir is ir)
    )
ir2.modules.append(m2)
if has(ir.modules, m2) and has(ir2.modules, m2):
    problems.append("IR-module: after the retry m2 is listed by two IRs")

# The same thing without any hand-written UUID: a deep copy of a module is
# attached next to the original, then both are taken out again.
ir = gtirb.IR()
m = gtirb.Module(name="orig", ir=ir)
gtirb.Section(name=".text", module=m)
twin = [x for x in copy.deepcopy(ir).modules][0]
twin.name = "twin"
twin.ir = ir
m.ir = None
try:
    twin.ir = None
    err = None
except KeyError as e:
    err = e
if has(ir.modules, twin) != (twin.ir is ir):
    problems.append(
        "deepcopy twin: after twin.ir = None raised %r: twin in ir.modules is "
        "%s but twin.ir is ir is %s" % (err, has(ir.modules, twin), twin.ir is ir)
    )

if problems:
    print("C04 VIOLATED (duplicate UUIDs):")
    for p in problems:
        print("  -", p)
    sys.exit(1)
print("no violation")
sys.exit(0)
