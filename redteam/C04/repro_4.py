"""C04 violation: slice assignment on ir.modules whose right-hand side lists
the same module twice, the module being NOT in that list beforehand (a fresh
module, or a module of another IR). ValueError is raised half-way through: the
modules of the replaced range keep their place in the list but have ir None,
and the new module has ir set without being in any list.
(Different from the recorded same-list cases: here the module is nowhere in
the list that is assigned to.)
Run: VERIF_REPO=/tmp/hunt_C04 /venv/bin/python repro_4.py
"""
import sys

sys.path.insert(0, "/tmp/mutkit")
import gtirb_from_repo

gtirb = gtirb_from_repo.load()
problems = []


def has(coll, x):
    return any(y is x for y in coll)


def run(label, make_new):
    a, b = gtirb.IR(), gtirb.IR()
    old = gtirb.Module(name="old", ir=a)
    other = gtirb.Module(name="other", ir=a)
    n = make_new(b)
    try:
        a.modules[0:1] = [n, n]
        err = None
    except Exception as e:
        err = e
    for mod in (old, other, n):
        for ir, irname in ((a, "a"), (b, "b")):
            if has(ir.modules, mod) != (mod.ir is ir):
                problems.append(
                    "%s: after a.modules[0:1] = [n, n] raised %s: %s in %s.modules=%s "
                    "but %s.ir is %s=%s"
                    % (label, type(err).__name__, mod.name, irname,
                       has(ir.modules, mod), mod.name, irname, mod.ir is ir)
                )
    # compare with extend(), which accepts the same duplicate list
    c = gtirb.IR()
    k = make_new(b)
    c.modules.extend([k, k])
    assert [x is k for x in c.modules] == [True] and k.ir is c


run("fresh module", lambda b: gtirb.Module(name="n"))
run("module of another IR", lambda b: gtirb.Module(name="n", ir=b))

if problems:
    print("C04 VIOLATED (slice assignment with a duplicated new module):")
    for p in problems:
        print("  -", p)
    sys.exit(1)
print("no violation")
sys.exit(0)
