"""C04 violation: the public ``uuid`` attribute of an attached node is
reassigned; the next move of that node raises KeyError half-way through and
leaves the node in its old parent's collection with its parent attribute
cleared; a second attempt gives it two parents.
Run: VERIF_REPO=/tmp/hunt_C04 /venv/bin/python repro_2.py
"""
import sys
import uuid

sys.path.insert(0, "/tmp/mutkit")
import gtirb_from_repo

gtirb = gtirb_from_repo.load()
problems = []


def has(coll, x):
    return any(y is x for y in coll)


ir = gtirb.IR()
m1 = gtirb.Module(name="m1", ir=ir)
m2 = gtirb.Module(name="m2", ir=ir)
s = gtirb.Section(name=".text", module=m1)
bi = gtirb.ByteInterval(size=4, section=s)
b = gtirb.CodeBlock(size=4, byte_interval=bi)

s.uuid = uuid.uuid4()  # plain public instance attribute, documented as ":ivar uuid"
try:
    s.module = m2
    err = None
except KeyError as e:
    err = e
if has(m1.sections, s) != (s.module is m1) or has(m2.sections, s) != (s.module is m2):
    problems.append(
        "after s.module = m2 raised %r: s in m1.sections=%s, s in m2.sections=%s, "
        "s.module is m1=%s, s.module is m2=%s, s.module=%r"
        % (err, has(m1.sections, s), has(m2.sections, s), s.module is m1,
           s.module is m2, None if s.module is None else s.module.name)
    )
if has(m1.byte_blocks, b) != (b.module is m1):
    problems.append(
        "derived accessors disagree: b in m1.byte_blocks=%s but b.module is m1=%s"
        % (has(m1.byte_blocks, b), b.module is m1)
    )
try:
    s.module = m2
except Exception as e:  # pragma: no cover
    problems.append("retry raised %r" % (e,))
if has(m1.sections, s) and has(m2.sections, s):
    problems.append("after the retry s is in m1.sections AND in m2.sections")

if problems:
    print("C04 VIOLATED (uuid reassigned while attached):")
    for p in problems:
        print("  -", p)
    sys.exit(1)
print("no violation")
sys.exit(0)
