# C11: `ir.cfg -= <live view of the same CFG>` (b.outgoing_edges, cfg.out_edges(n), cfg.in_edges(n),
# iter(cfg), a generator filtering cfg) raises RuntimeError and leaves the difference half-applied,
# while `&=` and `^=` given the very same argument work.
import sys; sys.path.insert(0, "/tmp/mutkit")
import gtirb_from_repo
gtirb = gtirb_from_repo.load()
from gtirb import IR, Module, Section, ByteInterval, CodeBlock, ProxyBlock, Edge

def build():
    ir = IR(); m = Module(name="m", ir=ir); s = Section(name="s", module=m)
    bi = ByteInterval(size=8, contents=b"\0" * 8, section=s)
    a, b, c = (CodeBlock(size=1, offset=i, byte_interval=bi) for i in range(3))
    ir.cfg.update([Edge(a, b), Edge(a, b, Edge.Label(Edge.Type.Branch)), Edge(a, c), Edge(b, c)])
    return ir, a, b, c

def K(edges):
    return {(e.source.offset, e.target.offset, e.label) for e in edges}

bad = []
for name, arg in [
    ("a.outgoing_edges", lambda ir, a, b, c: a.outgoing_edges),
    ("ir.cfg.out_edges(a)", lambda ir, a, b, c: ir.cfg.out_edges(a)),
    ("ir.cfg.in_edges(c)", lambda ir, a, b, c: ir.cfg.in_edges(c)),
    ("iter(ir.cfg)", lambda ir, a, b, c: iter(ir.cfg)),
    ("(e for e in ir.cfg if e.label is None)", lambda ir, a, b, c: (e for e in ir.cfg if e.label is None)),
]:
    ir, a, b, c = build()
    before = K(ir.cfg)
    removed = K(arg(ir, a, b, c))            # what the set difference must remove
    expected = before - removed
    try:
        ir.cfg -= arg(ir, a, b, c)
        err = None
    except Exception as ex:                   # noqa
        err = ex
    after = K(ir.cfg)
    if err is not None or after != expected:
        bad.append("ir.cfg -= %s: raised %r; %d edges before, %d expected, %d left"
                   % (name, err, len(before), len(expected), len(after)))
    # the same argument through &= and ^= is fine (shows the operators are inconsistent)
    ir, a, b, c = build(); ir.cfg ^= arg(ir, a, b, c); assert K(ir.cfg) == expected, name
    ir, a, b, c = build(); ir.cfg &= arg(ir, a, b, c); assert K(ir.cfg) == removed, name

# the equivalent explicit loop
ir, a, b, c = build()
try:
    for e in a.outgoing_edges:
        ir.cfg.discard(e)
except RuntimeError as ex:
    bad.append("for e in a.outgoing_edges: ir.cfg.discard(e): raised %r with %d of 3 outgoing edges left"
               % (ex, len(list(a.outgoing_edges))))

if bad:
    print("VIOLATION (C11): in-place difference with a live view of the same CFG does not compute the set difference")
    for line in bad:
        print("  " + line)
    sys.exit(1)
print("ok")
