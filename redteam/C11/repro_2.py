# C11: a block's outgoing_edges / incoming_edges are empty for a node that is in ir.cfg but is not
# attached to that IR (never attached, detached later, or attached to another IR), although
# ir.cfg.out_edges(n) / in_edges(n) list its edges.  The property is claimed for "any nodes (attached or not)".
import sys; sys.path.insert(0, "/tmp/mutkit")
import gtirb_from_repo
gtirb = gtirb_from_repo.load()
from gtirb import IR, Module, Section, ByteInterval, CodeBlock, ProxyBlock, Edge

def build():
    ir = IR(); m = Module(name="m", ir=ir); s = Section(name="s", module=m)
    bi = ByteInterval(size=8, contents=b"\0" * 8, section=s)
    return ir, m, bi, CodeBlock(size=1, offset=0, byte_interval=bi)

def views(ir, n):
    return (len(list(ir.cfg.out_edges(n))), len(list(n.outgoing_edges)),
            len(list(ir.cfg.in_edges(n))), len(list(n.incoming_edges)))

bad = []
def report(what, ir, n):
    co, bo, ci, bi_ = views(ir, n)
    if (co, ci) != (bo, bi_):
        bad.append("%s: cfg.out_edges(n)=%d but n.outgoing_edges=%d; cfg.in_edges(n)=%d but n.incoming_edges=%d"
                   % (what, co, bo, ci, bi_))

ir, m, bi, a = build()
d = CodeBlock()                      # never attached
ir.cfg.update([Edge(a, d), Edge(d, a), Edge(d, d)])
report("never-attached CodeBlock", ir, d)

ir, m, bi, a = build()
p = ProxyBlock()                     # never attached proxy
ir.cfg.update([Edge(a, p), Edge(p, a)])
report("never-attached ProxyBlock", ir, p)

ir, m, bi, a = build()
b = CodeBlock(size=1, offset=1, byte_interval=bi)
ir.cfg.update([Edge(a, b), Edge(b, a)])
report("attached block (control, must agree)", ir, b)
b.byte_interval = None               # detached after the edges were added
report("block detached after its edges were added", ir, b)

ir, m, bi, a = build()
ir2, m2, bi2, a2 = build()
ir.cfg.update([Edge(a, a2), Edge(a2, a)])   # node of another IR in this IR's CFG
report("block attached to another IR", ir, a2)

if bad:
    print("VIOLATION (C11): block adjacency views disagree with the CFG's edge set for nodes not attached to the CFG's IR")
    for line in bad:
        print("  " + line)
    sys.exit(1)
print("ok")
