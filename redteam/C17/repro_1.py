"""C17: a file written by save from a self-contained IR is rejected by load
when a ByteInterval's public `contents` attribute holds more bytes than `size`
(plain assignment, += or in-place bytearray edits never touch `size`)."""
import io
import sys

sys.path.insert(0, "/tmp/mutkit")
import gtirb_from_repo

gtirb = gtirb_from_repo.load()

failures = []


def roundtrip(tag, ir):
    buf = io.BytesIO()
    ir.save_protobuf_file(buf)  # succeeds
    try:
        gtirb.IR.load_protobuf_file(io.BytesIO(buf.getvalue()))
    except Exception as e:  # noqa: BLE001
        failures.append("%s: save succeeded, load rejected its output: %r" % (tag, e))


def fresh():
    ir = gtirb.IR()
    m = gtirb.Module(name="m", ir=ir)
    s = gtirb.Section(name=".text", module=m)
    return ir, s


# 1. the most natural way to fill an interval
ir, s = fresh()
bi = gtirb.ByteInterval(section=s)  # size 0
bi.contents = b"\x90\x90"
roundtrip("bi.contents = b'..' on a new interval", ir)

# 2. in-place operator through the attribute
ir, s = fresh()
bi = gtirb.ByteInterval(section=s, contents=b"ab")
bi.contents += b"cd"
roundtrip("bi.contents += b'cd'", ir)

# 3. aliasing: the mutable bytearray handed out by the attribute edited later
ir, s = fresh()
bi = gtirb.ByteInterval(section=s, contents=b"ab")
alias = bi.contents
alias.extend(b"cd")
roundtrip("bi.contents.extend(b'cd')", ir)

# 4. same on an IR that came from load (second generation)
ir, s = fresh()
gtirb.ByteInterval(section=s, contents=b"ab")
buf = io.BytesIO()
ir.save_protobuf_file(buf)
ir2 = gtirb.IR.load_protobuf_file(io.BytesIO(buf.getvalue()))
next(iter(ir2.byte_intervals)).contents += b"!"
roundtrip("loaded IR, contents += b'!'", ir2)

if failures:
    print("C17 VIOLATED (every file produced by save from a self-contained IR is accepted):")
    for f in failures:
        print("  -", f)
    sys.exit(1)
print("ok: all saved files were accepted")
sys.exit(0)
