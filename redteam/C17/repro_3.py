"""C17: forward references between modules other than entry_point: a symbol
whose referent lives in a LATER module, and a symbolic expression whose symbol
lives in a LATER module, are saved but the file is rejected by load.
(Same single-pass, module-by-module decoding as the already known entry_point
case, but different reference kinds / different code paths.)"""
import io
import sys

sys.path.insert(0, "/tmp/mutkit")
import gtirb_from_repo

gtirb = gtirb_from_repo.load()
failures = []


def roundtrip(tag, ir):
    buf = io.BytesIO()
    ir.save_protobuf_file(buf)
    try:
        gtirb.IR.load_protobuf_file(io.BytesIO(buf.getvalue()))
    except Exception as e:  # noqa: BLE001
        failures.append("%s: saved, but load rejected: %r" % (tag, e))


# symbol in module 1 -> proxy block of module 2 (an import resolved in another module)
ir = gtirb.IR()
m1 = gtirb.Module(name="a", ir=ir)
m2 = gtirb.Module(name="b", ir=ir)
p = gtirb.ProxyBlock(module=m2)
gtirb.Symbol("ext", payload=p, module=m1)
roundtrip("symbol referent in later module", ir)

# symbolic expression in module 1 -> symbol of module 2
ir = gtirb.IR()
m1 = gtirb.Module(name="a", ir=ir)
m2 = gtirb.Module(name="b", ir=ir)
s = gtirb.Section(name="s", module=m1)
bi = gtirb.ByteInterval(size=8, section=s)
sym = gtirb.Symbol("x", module=m2)
bi.symbolic_expressions[0] = gtirb.SymAddrConst(0, sym)
roundtrip("symbolic expression symbol in later module", ir)

# control: the same references pointing backwards are fine
ir = gtirb.IR()
m1 = gtirb.Module(name="a", ir=ir)
m2 = gtirb.Module(name="b", ir=ir)
p = gtirb.ProxyBlock(module=m1)
gtirb.Symbol("ext", payload=p, module=m2)
roundtrip("control: referent in earlier module", ir)

if failures:
    print("C17 VIOLATED (every file produced by save from a self-contained IR is accepted):")
    for f in failures:
        print("  -", f)
    sys.exit(1)
print("ok")
sys.exit(0)
