"""C17: save of an IR whose public `version` attribute is not PROTOBUF_VERSION
writes a file (header byte 4, message field version=N) that load always rejects."""
import io
import sys

sys.path.insert(0, "/tmp/mutkit")
import gtirb_from_repo

gtirb = gtirb_from_repo.load()

failures = []


def build(version_via_ctor, value):
    if version_via_ctor:
        ir = gtirb.IR(version=value)
    else:
        ir = gtirb.IR()
        ir.version = value
    gtirb.Module(name="m", ir=ir)
    return ir


for via_ctor, value in ((True, 3), (False, 0), (True, 5)):
    ir = build(via_ctor, value)
    buf = io.BytesIO()
    ir.save_protobuf_file(buf)  # succeeds, no complaint
    data = buf.getvalue()
    try:
        gtirb.IR.load_protobuf_file(io.BytesIO(data))
    except Exception as e:  # noqa: BLE001
        failures.append(
            "version=%r (%s): save wrote header %r, load rejected it: %r"
            % (value, "constructor" if via_ctor else "attribute", data[:8], e)
        )

if failures:
    print("C17 VIOLATED (every file produced by save from a self-contained IR is accepted):")
    for f in failures:
        print("  -", f)
    sys.exit(1)
print("ok")
sys.exit(0)
