"""C07: copy.copy() of a loaded, unread AuxData shares its one-shot lazy
container. Reading either object empties the container, after which the other
object's value can neither be read nor saved (AssertionError; under python -O
a TypeError from decoding None)."""
import copy
import io
import sys

sys.path.insert(0, "/tmp/mutkit")
import gtirb_from_repo

gtirb = gtirb_from_repo.load()
G = gtirb

ir = G.IR()
m = G.Module(name="m", ir=ir)
value = {"k": [1, 2]}
m.aux_data["x"] = G.AuxData(value, "mapping<string,sequence<int64_t>>")
buf = io.BytesIO()
ir.save_protobuf_file(buf)
buf.seek(0)
g = G.IR.load_protobuf_file(buf)
gm = g.modules[0]
gm.aux_data["y"] = copy.copy(gm.aux_data["x"])  # duplicate the table under a new name

bad = 0
assert gm.aux_data["x"].data == value
try:
    got = gm.aux_data["y"].data
    if got != value:
        print("VIOLATION: y decoded to", got)
        bad += 1
except BaseException as e:
    print("VIOLATION: reading y.data after x.data raised %s %s" % (type(e).__name__, e))
    bad += 1
try:
    g.save_protobuf_file(io.BytesIO())
except BaseException as e:
    print("VIOLATION: saving the IR raised %s %s (table y is lost)" % (type(e).__name__, e))
    bad += 1
sys.exit(1 if bad else 0)
