"""C07 (borderline, domain-dependent): a finite Python float whose nearest
binary32 value is +/-infinity cannot be encoded as type 'float': the encoder
raises a bare OverflowError instead of storing the rounded value (inf), so
decode(encode(v)) == round_to_float32(v) fails for those v."""
import io
import math
import sys

sys.path.insert(0, "/tmp/mutkit")
import gtirb_from_repo

gtirb = gtirb_from_repo.load()
S = gtirb.AuxData.serializer
bad = 0
for v in (3.4028235677973366e38, 3.5e38, -1e39, 1.7976931348623157e308):
    out = io.BytesIO()
    try:
        S.encode(out, v, "float")
        back = S.decode(out.getvalue(), "float")
        if not (math.isinf(back) and (back > 0) == (v > 0)):
            print("VIOLATION: %r decoded as %r" % (v, back))
            bad += 1
    except OverflowError as e:
        print("VIOLATION: encoding %r as 'float' raised OverflowError (%s); "
              "IEEE-754 rounding to float32 gives %sinf" % (v, e, "-" if v < 0 else ""))
        bad += 1
sys.exit(1 if bad else 0)
