"""C07: a loaded (lazy) table resolves UUIDs against the IR that loaded it, not
the IR its owner belongs to when the table is read. After a loaded module is
moved to another IR, the module's own nodes named in its unread table come
back as plain UUIDs (and the old IR, now foreign, comes back as a node).
Reading the table before the move gives node objects: the result depends on
when .data is first consumed."""
import io
import sys
import uuid

sys.path.insert(0, "/tmp/mutkit")
import gtirb_from_repo

gtirb = gtirb_from_repo.load()
G = gtirb

ir = G.IR()
m = G.Module(name="m", ir=ir)
s = G.Section(name=".text", module=m)
bi = G.ByteInterval(contents=b"\0" * 8, section=s)
cb = G.CodeBlock(offset=0, size=4, byte_interval=bi)
m.aux_data["alignment"] = G.AuxData({cb: 8, ir: 1}, "mapping<UUID,uint64_t>")
m.aux_data["comments"] = G.AuxData({G.Offset(cb, 2): "hi"}, "mapping<Offset,string>")
buf = io.BytesIO()
ir.save_protobuf_file(buf)


def load():
    return G.IR.load_protobuf_file(io.BytesIO(buf.getvalue()))


# control: read first, then move -> node objects
a = load()
ma = a.modules[0]
early = {type(k).__name__ for k in ma.aux_data["alignment"].data}

# move first, then read
b = load()
mb = b.modules[0]
other = G.IR()
other.modules.append(mb)  # mb and all its nodes now belong to `other`
assert mb.ir is other and other.get_by_uuid(cb.uuid) is not None
table = mb.aux_data["alignment"].data
bad = 0
for k in table:
    u = k.uuid if isinstance(k, G.Node) else k
    in_other = other.get_by_uuid(u)
    if in_other is not None and k is not in_other:
        print("VIOLATION: key %s names %s, a node of the module's IR, but came back as %s"
              % (u, type(in_other).__name__, type(k).__name__))
        bad += 1
    if in_other is None and not isinstance(k, uuid.UUID):
        print("VIOLATION: key %s names no node of the module's IR but came back as %s object"
              % (u, type(k).__name__))
        bad += 1
off = next(iter(mb.aux_data["comments"].data))
if off.element_id is not other.get_by_uuid(cb.uuid):
    print("VIOLATION: Offset.element_id came back as %s, expected the CodeBlock object"
          % type(off.element_id).__name__)
    bad += 1
print("key kinds when read before the move:", sorted(early))
print("key kinds when read after the move :", sorted(type(k).__name__ for k in table))
sys.exit(1 if bad else 0)
