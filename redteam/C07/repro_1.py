"""C07: non-empty set<C> / mapping<C,V> with C a sequence, set, mapping or variant
encodes fine but cannot be decoded (TypeError: unhashable type)."""
import io
import sys

sys.path.insert(0, "/tmp/mutkit")
import gtirb_from_repo

gtirb = gtirb_from_repo.load()
from gtirb.serialization import Variant

S = gtirb.AuxData.serializer
cases = [
    ("set<sequence<int64_t>>", {(1, 2), (3,)}),
    ("set<set<int64_t>>", frozenset({frozenset({1}), frozenset()})),
    ("mapping<sequence<int64_t>,string>", {(1, 2): "a"}),
    ("mapping<set<string>,bool>", {frozenset({"k"}): True}),
    ("mapping<tuple<sequence<int64_t>,string>,bool>", {((1,), "x"): True}),
    ("set<variant<int64_t,string>>", [Variant(1, "s")]),
]
bad = 0
for type_name, value in cases:
    out = io.BytesIO()
    S.encode(out, value, type_name)  # the encoder accepts the value
    try:
        back = S.decode(out.getvalue(), type_name)
    except TypeError as e:
        print("VIOLATION %s: encoded %r (%d bytes) but decode raised TypeError: %s"
              % (type_name, value, len(out.getvalue()), e))
        bad += 1

# The same through a file: the library writes a table it cannot read back.
ir = gtirb.IR()
ir.aux_data["t"] = gtirb.AuxData({(1, 2)}, "set<sequence<int64_t>>")
buf = io.BytesIO()
ir.save_protobuf_file(buf)
buf.seek(0)
ir2 = gtirb.IR.load_protobuf_file(buf)
try:
    ir2.aux_data["t"].data
except TypeError as e:
    print("VIOLATION via save/load: reading .data raised TypeError: %s" % e)
    bad += 1
sys.exit(1 if bad else 0)
