"""C05 / laziness (borderline): a byte-interval lookup captures the index when it is called
but filters when it is consumed.  If an edit happens in between, the 'at' result is neither the
answer for the state at call time nor the answer for the state at consumption time
(section, module and IR scopes evaluate everything at consumption time and give the latter).
Run: VERIF_REPO=/tmp/hunt_C05 /venv/bin/python repro_4.py"""
import sys
sys.path.insert(0, "/tmp/mutkit")
import gtirb_from_repo
gtirb = gtirb_from_repo.load()

def world():
    ir = gtirb.IR(); m = gtirb.Module(name="m", ir=ir); s = gtirb.Section(name="s", module=m)
    bi = gtirb.ByteInterval(address=100, size=20, section=s)
    bs = [gtirb.CodeBlock(offset=i, size=2, byte_interval=bi) for i in range(6)]
    return ir, m, s, bi, bs
def at(blocks, r):
    return {b for b in blocks if b.address in r}
q = range(100, 104)
bad = False
for name in ("bi", "s", "ir"):
    ir, m, s, bi, bs = world()
    scope = {"bi": bi, "s": s, "ir": ir}[name]
    list(bi.byte_blocks_at(100))
    before = at(bi.blocks, q)
    res = scope.byte_blocks_at(q)          # lookup made here ...
    bs[5].offset = 1                       # ... one block moves into the range
    bs[0].offset = 10                      # ... one block moves out of it
    after = at(bi.blocks, q)
    got = set(res)                         # ... result consumed here
    idx = lambda S: sorted(bs.index(b) for b in S)
    print(name, "got", idx(got), "state-at-call", idx(before), "state-at-consumption", idx(after))
    if got != before and got != after:
        print("   VIOLATION: result matches neither state")
        bad = True
sys.exit(1 if bad else 0)
