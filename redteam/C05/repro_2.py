"""C05 / error path: removing a node whose UUID is not (any more) in the IR's UUID table
raises KeyError *after* the node was taken out of the lookup index and its owner pointer
cleared, but *before* it is taken out of the owning collection.  The node stays in
interval.blocks / section.byte_intervals, yet every lookup misses it.
The UUID table loses the entry when two nodes of one IR share a UUID, e.g. after importing
a block / interval from a second load (or deepcopy) of the same file.
Run: VERIF_REPO=/tmp/hunt_C05 /venv/bin/python repro_2.py"""
import io, sys
sys.path.insert(0, "/tmp/mutkit")
import gtirb_from_repo
gtirb = gtirb_from_repo.load()
bad = False

ir = gtirb.IR(); m = gtirb.Module(name="m", ir=ir); s = gtirb.Section(name="s", module=m)
bi = gtirb.ByteInterval(address=100, size=20, section=s)
for i in range(6):
    gtirb.CodeBlock(offset=i, size=2, byte_interval=bi)
f = io.BytesIO(); ir.save_protobuf_file(f)
A = gtirb.IR.load_protobuf_file(io.BytesIO(f.getvalue()))
B = gtirb.IR.load_protobuf_file(io.BytesIO(f.getvalue()))      # same file, same UUIDs

# --- block level -------------------------------------------------------------
biA = next(iter(A.byte_intervals)); biB = next(iter(B.byte_intervals))
list(biA.byte_blocks_on(100))                                   # index built
orig = next(b for b in biA.blocks if b.offset == 3)
twin = next(b for b in biB.blocks if b.offset == 3)
twin.offset = 10
twin.byte_interval = biA          # import the block from the second copy
orig.byte_interval = None         # drop the original
try:
    twin.byte_interval = None     # now drop the imported one
    print("block removal: no exception")
except KeyError as e:
    print("block removal raised KeyError", e)
scan = [b for b in biA.blocks if b.offset == 10]
got = list(biA.byte_blocks_at_offset(10))
print("twin in biA.blocks:", twin in biA.blocks, "| twin.byte_interval:", twin.byte_interval)
print("biA.byte_blocks_at_offset(10):", got, "| fresh scan of biA.blocks:", scan)
if scan and not got:
    print("VIOLATION (interval scope): a block of interval.blocks is missed by the offset lookups")
    bad = True

# --- interval level (address lookups at section / module / IR scope) -----------
A = gtirb.IR.load_protobuf_file(io.BytesIO(f.getvalue()))
B = gtirb.IR.load_protobuf_file(io.BytesIO(f.getvalue()))
sA = next(iter(A.sections)); biA = next(iter(A.byte_intervals)); biB = next(iter(B.byte_intervals))
biB.address = 120
biB.section = sA                  # import the interval from the second copy
for i in range(4):
    gtirb.ByteInterval(address=300 + i, size=1, section=sA)
list(sA.byte_blocks_on(120))      # section index built
biA.section = None                # drop the original interval
try:
    biB.section = None
    print("interval removal: no exception")
except KeyError as e:
    print("interval removal raised KeyError", e)
scan = [b for b in sA.byte_blocks if b.byte_interval.address + b.offset == 120]
got = list(sA.byte_blocks_at(120)) + list(A.byte_blocks_on(120)) + list(A.modules[0].code_blocks_at(120))
print("biB in sA.byte_intervals:", biB in sA.byte_intervals, "| biB.section:", biB.section)
print("section/module/IR lookups at 120:", got, "| fresh scan of sA.byte_blocks at 120:", scan)
if scan and not got:
    print("VIOLATION (section, module, IR scope): a block inside its interval's extent is missed")
    bad = True

# --- shortest form: two blocks constructed with the same UUID -------------------
import uuid
ir = gtirb.IR(); m = gtirb.Module(name="m", ir=ir); s = gtirb.Section(name="s", module=m)
bi = gtirb.ByteInterval(address=100, size=20, section=s)
for i in range(4):
    gtirb.CodeBlock(offset=10 + i, size=1, byte_interval=bi)
U = uuid.UUID(int=0)
b1 = gtirb.CodeBlock(offset=0, size=2, uuid=U, byte_interval=bi)
b2 = gtirb.DataBlock(offset=3, size=2, uuid=U, byte_interval=bi)
list(bi.byte_blocks_on(100))
bi.blocks.discard(b1)
try:
    bi.blocks.discard(b2)
except KeyError:
    pass
if b2 in bi.blocks and not list(bi.data_blocks_on_offset(3)):
    print("VIOLATION (same-UUID blocks): b2 in bi.blocks but data_blocks_on_offset(3) == []")
    bad = True
sys.exit(1 if bad else 0)
