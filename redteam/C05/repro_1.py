"""C05 / error path: a bulk add that fails half-way leaves a block that claims the
interval as its owner without being in interval.blocks; the next offset/size edit
of that block puts it into the interval's lookup index, so lookups return a block
that a fresh scan of interval.blocks does not contain.
Run: VERIF_REPO=/tmp/hunt_C05 /venv/bin/python repro_1.py"""
import sys
sys.path.insert(0, "/tmp/mutkit")
import gtirb_from_repo
gtirb = gtirb_from_repo.load()

def attempt():
    ir = gtirb.IR(); m = gtirb.Module(name="m", ir=ir); s = gtirb.Section(name="s", module=m)
    src = gtirb.ByteInterval(address=100, size=20, section=s)
    dst = gtirb.ByteInterval(address=200, size=20, section=s)
    for i in range(4):
        gtirb.DataBlock(offset=10 + i, size=1, byte_interval=dst)
    cb = gtirb.CodeBlock(offset=0, size=2, byte_interval=src)
    gtirb.ProxyBlock(module=m)
    list(dst.byte_blocks_on(200))               # index of dst is built
    try:
        # user mistake: cfg_nodes also yields the module's ProxyBlocks
        dst.blocks.update(m.cfg_nodes)
    except AttributeError:
        pass
    if not (cb.byte_interval is dst and cb not in dst.blocks):
        return None                              # set order put the proxy first: nothing happened
    cb.offset = 7                                # ordinary edit of the orphaned block
    got = list(dst.byte_blocks_at_offset(7)) + list(dst.byte_blocks_on(207)) + list(ir.code_blocks_at(207))
    scan = [b for b in dst.blocks if b.offset == 7]
    return cb, dst, src, got, scan

for _ in range(200):
    r = attempt()
    if r is not None:
        break
else:
    print("partial state never produced (set iteration order); no violation shown"); sys.exit(0)
cb, dst, src, got, scan = r
print("cb in src.blocks:", cb in src.blocks, "| cb in dst.blocks:", cb in dst.blocks, "| cb.byte_interval is dst:", cb.byte_interval is dst)
print("dst.byte_blocks_at_offset(7) + dst.byte_blocks_on(207) + ir.code_blocks_at(207):", got)
print("fresh scan of dst.blocks at offset 7:", scan)
if got and not scan:
    print("VIOLATION: lookups return a block that is not in the interval's blocks")
    sys.exit(1)
sys.exit(0)
