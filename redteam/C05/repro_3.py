"""C05 / subclasses: _IndexedAttribute.__set__ tests the owner with `if parent:` instead of
`if parent is not None:`.  A user subclass of ByteInterval (or Section) that defines __len__
or __bool__ and is falsy (e.g. len(interval) == number of initialised bytes, 0 for .bss)
never hears about offset/size (address/size) edits: lookups keep answering from the old values.
Run: VERIF_REPO=/tmp/hunt_C05 /venv/bin/python repro_3.py"""
import sys
sys.path.insert(0, "/tmp/mutkit")
import gtirb_from_repo
gtirb = gtirb_from_repo.load()
bad = False

class SizedInterval(gtirb.ByteInterval):
    def __len__(self):                       # "how many bytes are stored"
        return len(self.contents)

ir = gtirb.IR(); m = gtirb.Module(name="m", ir=ir); s = gtirb.Section(name=".bss", module=m)
bi = SizedInterval(address=100, size=20, section=s)          # no contents -> len(bi) == 0
bs = [gtirb.DataBlock(offset=2 * i, size=2, byte_interval=bi) for i in range(6)]
list(bi.byte_blocks_on(100))                                  # index built
bs[0].offset = 15                                             # 100 -> 115
for scope in (bi, s, m, ir):
    on_old = list(scope.byte_blocks_on(100)); at_new = list(scope.byte_blocks_at(115)); on_new = list(scope.byte_blocks_on(115))
    print(type(scope).__name__, "on(100):", [(b.offset, b.size) for b in on_old], " at(115):", [(b.offset, b.size) for b in at_new], " on(115):", [(b.offset, b.size) for b in on_new])
    if bs[0] in on_old or bs[0] not in at_new or bs[0] not in on_new:
        bad = True
if bad:
    print("VIOLATION: the block now covers 115..116 (offset 15); on(100) still returns it, at(115)/on(115) miss it")

class NonEmptySection(gtirb.Section):
    def __bool__(self):                      # "does the section contain any block"
        return any(True for _ in self.byte_blocks)

s2 = NonEmptySection(name="t", module=m)
bi2 = gtirb.ByteInterval(address=300, size=10, section=s2)
list(s2.byte_blocks_on(300))
bi2.address = 400                                             # section has no blocks yet -> falsy
b = gtirb.CodeBlock(offset=0, size=2, byte_interval=bi2)
got = list(s2.byte_blocks_at(400)) + list(ir.code_blocks_on(400))
print("Section subclass: lookups at 400:", got, "| block address:", b.address)
if not got:
    print("VIOLATION: block at 400 inside its interval is missed at section/module/IR scope")
    bad = True
sys.exit(1 if bad else 0)
