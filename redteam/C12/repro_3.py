"""C12: ByteInterval.blocks.update() is not atomic.  When it raises after its first loop
(an element that is not a ByteBlock, or a block whose size is None), the other blocks of the
same call are left with block.byte_interval == interval although they are NOT in
interval.blocks, and ADDED events for them may already be queued.  Every later edit of such an
orphan queues events in the interval's lazy tree, so lookups return a block that is not in the
collection - but only if an earlier lookup made the tree take the replay path."""
import sys
sys.path.insert(0, "/tmp/mutkit")
import gtirb_from_repo
gtirb = gtirb_from_repo.load()


def run(early_lookup):
    bi = gtirb.ByteInterval(address=0, size=100)
    for i in range(6):
        gtirb.CodeBlock(offset=i, size=1, byte_interval=bi)
    if early_lookup:
        list(bi.byte_blocks_on_offset(0))
    good = gtirb.CodeBlock(offset=30, size=1)
    bad = gtirb.CodeBlock(offset=60, size=None)   # invalid size: the call below raises
    try:
        bi.blocks.update([good, bad])
        err = None
    except Exception as e:
        err = type(e).__name__
    orphan = good.byte_interval is bi and good not in bi.blocks
    good.offset = 31              # an ordinary edit of the orphan
    members = sorted(b.offset for b in bi.blocks)
    found = sorted(b.offset for b in bi.byte_blocks_on_offset(range(0, 100)))
    return err, orphan, members, found


a = run(False)
b = run(True)
print("no earlier lookup : error=%s orphan=%s blocks=%s lookup=%s" % a)
print("one earlier lookup: error=%s orphan=%s blocks=%s lookup=%s" % b)

# same thing with an element of the wrong class (set order decides which element is hit first)
def run2(early_lookup):
    for _ in range(64):
        bi = gtirb.ByteInterval(address=0, size=100)
        for i in range(6):
            gtirb.CodeBlock(offset=i, size=1, byte_interval=bi)
        if early_lookup:
            list(bi.byte_blocks_on_offset(0))
        good = gtirb.CodeBlock(offset=30, size=1)
        try:
            bi.blocks.update([good, gtirb.ProxyBlock()])
        except AttributeError:
            pass
        if good.byte_interval is bi and good not in bi.blocks:
            good.size = 2
            return sorted(b.offset for b in bi.byte_blocks_on_offset(range(0, 100)))
    return None
c, d = run2(False), run2(True)
print("ProxyBlock variant, no earlier lookup :", c)
print("ProxyBlock variant, one earlier lookup:", d)
if a[3] != b[3] or c != d:
    print("VIOLATION: same edit history, final lookup differs with/without an earlier lookup")
    sys.exit(1)
sys.exit(0)
