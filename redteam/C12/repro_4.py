"""C12: a null interval (block of size -1) poisons the queue of pending edits.  After the size
has been repaired the IR structure is valid, yet lookups keep raising ValueError if the tree
takes the replay path (an earlier lookup happened and fewer edits than blocks are pending),
while they succeed if no lookup was issued earlier (rebuild from the current structure)."""
import sys
sys.path.insert(0, "/tmp/mutkit")
import gtirb_from_repo
gtirb = gtirb_from_repo.load()


def run(early_lookup):
    bi = gtirb.ByteInterval(address=0, size=100)
    for i in range(6):
        gtirb.CodeBlock(offset=i, size=1, byte_interval=bi)
    if early_lookup:
        list(bi.byte_blocks_on_offset(0))
    b = gtirb.CodeBlock(offset=50, size=-1, byte_interval=bi)   # accepted silently
    b.size = 1                                                  # repaired before any lookup
    out = []
    for attempt in range(2):
        try:
            out.append(sorted(x.offset for x in bi.byte_blocks_on_offset(range(0, 100))))
        except Exception as e:
            out.append("%s" % type(e).__name__)
    return out


a = run(False)
b = run(True)
print("no earlier lookup :", a)
print("one earlier lookup:", b)
if a != b:
    print("VIOLATION: same edit history and same (valid) final structure; the final lookup "
          "raises only when an earlier lookup had been issued, and keeps raising")
    sys.exit(1)
sys.exit(0)
