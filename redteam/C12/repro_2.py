"""C12: after a removal that fails half-way (KeyError from the UUID table because two nodes of
the IR carry the same UUID), the block is still in ByteInterval.blocks but a DISCARDED event is
pending in the lazy tree.  Whether lookups still return the block then depends on whether a
lookup had been issued before (replay drops it, rebuild keeps it)."""
import sys
import uuid
sys.path.insert(0, "/tmp/mutkit")
import gtirb_from_repo
gtirb = gtirb_from_repo.load()


def run(early_lookup):
    ir = gtirb.IR()
    m = gtirb.Module(name="m", ir=ir)
    s = gtirb.Section(name="s", module=m)
    bi = gtirb.ByteInterval(address=0, size=100, section=s)
    for i in range(6):
        gtirb.CodeBlock(offset=i, size=1, byte_interval=bi)
    u = uuid.UUID(int=0)  # nil UUID, used twice
    b1 = gtirb.CodeBlock(offset=10, size=1, uuid=u, byte_interval=bi)
    b2 = gtirb.DataBlock(offset=20, size=1, uuid=u, byte_interval=bi)
    if early_lookup:
        list(bi.byte_blocks_on_offset(0))
    errors = []
    for b in (b1, b2):
        try:
            bi.blocks.discard(b)
        except Exception as e:  # second one: KeyError
            errors.append(type(e).__name__)
    members = sorted(b.offset for b in bi.blocks)
    found = sorted(b.offset for b in bi.byte_blocks_on_offset(range(0, 100)))
    return errors, members, found


a = run(False)
b = run(True)
print("no earlier lookup : errors=%s blocks=%s lookup=%s" % a)
print("one earlier lookup: errors=%s blocks=%s lookup=%s" % b)
if a[2] != b[2] or b[1] != b[2]:
    print("VIOLATION: same edit history, final lookup differs with/without an earlier lookup "
          "(and disagrees with ByteInterval.blocks)")
    sys.exit(1)
sys.exit(0)
