"""C12: the answer of a lookup that is consumed late depends on whether (and with how many
pending edits) ANOTHER lookup was issued in between.

ByteInterval.byte_blocks_on/at[_offset] (and code_/data_ variants) and
Section.byte_intervals_on/at flush the lazy tree when they are CALLED, but search it only when
the returned generator is first advanced.  The tree object they captured is either left alone
(no later lookup), mutated in place (later lookup, few pending edits -> replay) or abandoned
(later lookup, many pending edits -> rebuild)."""
import sys
sys.path.insert(0, "/tmp/mutkit")
import gtirb_from_repo
gtirb = gtirb_from_repo.load()


def blocks_scenario(extra_lookup, churn):
    bi = gtirb.ByteInterval(size=100, address=0x1000)
    bs = [gtirb.CodeBlock(offset=i, size=1, byte_interval=bi) for i in range(5)]
    list(bi.byte_blocks_on_offset(0))             # index exists
    g = bi.byte_blocks_on_offset(range(0, 100))   # lookup issued, consumed at the end
    x = gtirb.CodeBlock(offset=50, size=1, byte_interval=bi)   # edit 1: add
    bs[0].byte_interval = None                                 # edit 2: remove
    for _ in range(churn):      # net-zero edits: only the NUMBER of pending edits grows
        x.offset = 51
        x.offset = 50
    if extra_lookup:
        list(bi.byte_blocks_at_offset(0))          # the "additional lookup"
    return sorted(b.offset for b in g)


def intervals_scenario(extra_lookup, churn):
    s = gtirb.Section(name="s")
    bis = [gtirb.ByteInterval(address=i * 10, size=10, section=s) for i in range(5)]
    s.address
    g = s.byte_intervals_on(range(0, 1000))
    n = gtirb.ByteInterval(address=500, size=10, section=s)
    bis[0].section = None
    for _ in range(churn):
        n.address = 501
        n.address = 500
    if extra_lookup:
        s.size
    return sorted(b.address for b in g)


bad = False
for name, fn in (("ByteInterval.byte_blocks_on_offset", blocks_scenario),
                 ("Section.byte_intervals_on", intervals_scenario)):
    none = fn(False, 0)
    few = fn(True, 0)      # 2 pending edits  < collection size -> replayed into the captured tree
    many = fn(True, 3)     # 14 pending edits >= collection size -> new tree, captured one is stale
    print(name)
    print("  same edit history, no additional lookup          ->", none)
    print("  additional lookup with 2 pending edits           ->", few)
    print("  additional lookup with 14 pending (net-zero) edits ->", many)
    if not (none == few == many):
        bad = True
if bad:
    print("VIOLATION: the final answer depends on the placement of an additional lookup "
          "and on how many edits were pending when it ran")
    sys.exit(1)
sys.exit(0)
