"""C16: with a user subclass that defines value equality, moving a module out
of a list removes the wrong (equal but distinct) module and leaves the moved
one in both lists."""
import sys; sys.path.insert(0, "/tmp/mutkit")
import gtirb_from_repo
gtirb = gtirb_from_repo.load()

class NamedModule(gtirb.Module):
    def __eq__(self, other):
        return isinstance(other, gtirb.Module) and other.name == self.name
    def __hash__(self):
        return hash(self.name)

bad = []
ir_a = gtirb.IR(); ir_b = gtirb.IR()
a1 = NamedModule(name="same", ir=ir_a)
a2 = NamedModule(name="same", ir=ir_a)
ir_b.modules.append(a2)                       # move a2 from ir_a to ir_b
in_a = [m is a1 and "a1" or "a2" for m in ir_a.modules]
in_b = [m is a1 and "a1" or "a2" for m in ir_b.modules]
if in_a != ["a1"] or in_b != ["a2"] or a1.ir is not ir_a or a2.ir is not ir_b:
    bad.append("after ir_b.modules.append(a2): ir_a.modules=%s ir_b.modules=%s a1.ir is ir_a=%s a2.ir is ir_b=%s"
               % (in_a, in_b, a1.ir is ir_a, a2.ir is ir_b))

class NamedSection(gtirb.Section):
    def __eq__(self, other):
        return isinstance(other, gtirb.Section) and other.name == self.name
    def __hash__(self):
        return hash(self.name)
ir = gtirb.IR(); m = gtirb.Module(name="m", ir=ir)
s1 = NamedSection(name="x", module=m); s2 = NamedSection(name="x")
m.sections.add(s2)                            # set.add of an equal element: no-op
held = [s is s1 and "s1" or "s2" for s in m.sections]
if held == ["s1"] and (s2.module is m or ir.get_by_uuid(s2.uuid) is s2):
    bad.append("m.sections.add(s2) with s2 == s1 already held: set keeps s1 only, yet s2.module is m=%s and s2 is in the UUID table=%s"
               % (s2.module is m, ir.get_by_uuid(s2.uuid) is s2))

if bad:
    print("C16 violated (equal-but-distinct nodes from a user subclass):")
    for b in bad:
        print("  -", b)
    sys.exit(1)
sys.exit(0)
