"""C16: a failing ir.modules.insert() (index that list.insert itself rejects)
leaves the module half-attached and removed from its previous owner."""
import sys; sys.path.insert(0, "/tmp/mutkit")
import gtirb_from_repo
gtirb = gtirb_from_repo.load()

bad = []
ir = gtirb.IR(); a = gtirb.Module(name="a", ir=ir)
ir2 = gtirb.IR(); x = gtirb.Module(name="x", ir=ir2)

# the built-in raises OverflowError and leaves both lists untouched
l, l2 = [a], [x]
try:
    l.insert(2**64, x)
except OverflowError:
    pass
assert l == [a] and l2 == [x]

try:
    ir.modules.insert(2**64, x)
    bad.append("insert(2**64, x) did not raise")
except OverflowError:
    pass
if x in ir2.modules and x.ir is ir2 and x not in ir.modules:
    pass  # consistent: nothing happened
else:
    bad.append(
        "after the failed insert: x in ir.modules=%s, x in ir2.modules=%s, "
        "x.ir is ir=%s, ir.get_by_uuid(x.uuid) is x=%s"
        % (x in ir.modules, x in ir2.modules, x.ir is ir,
           ir.get_by_uuid(x.uuid) is x)
    )
# a second, well-formed attempt does not behave like a first one
try:
    ir.modules.insert(0, x)
except ValueError as e:
    bad.append("retry ir.modules.insert(0, x) raises ValueError (x is not in list)")

# same thing with a member of the list and an index of the wrong type:
ir3 = gtirb.IR(); p = gtirb.Module(name="p", ir=ir3); q = gtirb.Module(name="q", ir=ir3)
try:
    ir3.modules.insert(None, p)
except TypeError:
    pass
if list(ir3.modules) != [p, q]:
    bad.append(
        "failed insert(None, p) of a member removed it: modules=%s, p.ir is ir3=%s"
        % ([m.name for m in ir3.modules], p.ir is ir3)
    )

if bad:
    print("C16 violated (failed insert leaves inconsistent state):")
    for b in bad:
        print("  -", b)
    sys.exit(1)
sys.exit(0)
