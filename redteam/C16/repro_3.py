"""C16: bulk adds fed by a lazy iterator that walks another owner's live
collection (generator, iter(), the library's own *_named / *_on / ir.sections
lookups) skip elements or raise RuntimeError; the built-in moves nothing and
takes every element."""
import sys; sys.path.insert(0, "/tmp/mutkit")
import gtirb_from_repo
gtirb = gtirb_from_repo.load()
bad = []

def two_irs():
    ir1 = gtirb.IR(); ms = [gtirb.Module(name="lib", ir=ir1) for _ in range(4)]
    ir2 = gtirb.IR()
    return ir1, ir2, ms

# list: silently wrong result
ir1, ir2, ms = two_irs()
ir2.modules.extend(ir1.modules_named("lib"))      # "move every module named lib"
if len(ir2.modules) != 4 or len(ir1.modules) != 0:
    bad.append("ir2.modules.extend(ir1.modules_named('lib')): moved %d of 4, %d left behind, no exception" % (len(ir2.modules), len(ir1.modules)))
ir1, ir2, ms = two_irs()
ir2.modules += (m for m in ir1.modules)
if len(ir2.modules) != 4:
    bad.append("ir2.modules += (m for m in ir1.modules): moved %d of 4, no exception" % len(ir2.modules))
ir1, ir2, ms = two_irs()
ir3 = gtirb.IR(modules=iter(ir1.modules))
if len(ir3.modules) != 4:
    bad.append("IR(modules=iter(ir1.modules)): got %d of 4 modules, no exception" % len(ir3.modules))

# sets: RuntimeError after a partial move
def two_modules():
    ir = gtirb.IR(); m1 = gtirb.Module(name="m1", ir=ir); m2 = gtirb.Module(name="m2", ir=ir)
    for i in range(4):
        s = gtirb.Section(name="s%d" % i, module=m1)
        gtirb.ByteInterval(address=0x100 * i, size=0x10, section=s)
        gtirb.Symbol(name="foo", module=m1)
    return ir, m1, m2

def attempt(label, f, done):
    try:
        f()
        outcome = "no exception"
    except Exception as e:
        outcome = "%s: %s" % (type(e).__name__, e)
    moved, left = done()
    if (moved, left) != (4, 0):
        bad.append("%s -> %s; moved %d of 4, %d left" % (label, outcome, moved, left))

ir, m1, m2 = two_modules()
attempt("m2.sections.update(m1.sections_on(range(0, 0x1000)))",
        lambda: m2.sections.update(m1.sections_on(range(0, 0x1000))),
        lambda: (len(m2.sections), len(m1.sections)))
ir, m1, m2 = two_modules()
attempt("m2.symbols.update(m1.symbols_named('foo'))",
        lambda: m2.symbols.update(m1.symbols_named("foo")),
        lambda: (len(m2.symbols), len(m1.symbols)))
ir, m1, m2 = two_modules()
def ior():
    m2.sections |= (s for s in m1.sections)
attempt("m2.sections |= (s for s in m1.sections)", ior, lambda: (len(m2.sections), len(m1.sections)))
ir, m1, m2 = two_modules()
attempt("Module(sections=iter(m1.sections))",
        lambda: m2.sections.update(gtirb.Module(name="m3", sections=iter(m1.sections)).sections),
        lambda: (len(m2.sections), len(m1.sections)))
ir, m1, m2 = two_modules()
s_from, s_to = list(m1.sections)[:2]
for i in range(3):
    gtirb.ByteInterval(size=1, section=s_from)
attempt("s_to.byte_intervals.update(iter(s_from.byte_intervals))",
        lambda: s_to.byte_intervals.update(iter(s_from.byte_intervals)),
        lambda: (len(s_to.byte_intervals) - 1, len(s_from.byte_intervals)))
ir, m1, m2 = two_modules()
bi_from = next(iter(list(m1.sections)[0].byte_intervals)); bi_to = next(iter(list(m1.sections)[1].byte_intervals))
for i in range(4):
    gtirb.CodeBlock(offset=i, size=1, byte_interval=bi_from)
def ior_blocks():
    bi_to.blocks |= (b for b in bi_from.blocks)
attempt("bi_to.blocks |= (b for b in bi_from.blocks)", ior_blocks, lambda: (len(bi_to.blocks), len(bi_from.blocks)))

# reference behaviour of the built-ins: every element is taken
l1, l2 = [1, 2, 3, 4], []; l2.extend(x for x in l1); assert l2 == [1, 2, 3, 4]
s1, s2 = {1, 2, 3, 4}, set(); s2.update(iter(s1)); s2 |= {x for x in s1}; assert s2 == s1

if bad:
    print("C16 violated (bulk add from a lazy iterator over another owner's collection):")
    for b in bad:
        print("  -", b)
    sys.exit(1)
sys.exit(0)
