"""C16: ir.modules[a:b] = <a Module, not an iterable> raises AssertionError;
list raises TypeError."""
import sys; sys.path.insert(0, "/tmp/mutkit")
import gtirb_from_repo
gtirb = gtirb_from_repo.load()
ir = gtirb.IR(); a = gtirb.Module(name="a", ir=ir); n = gtirb.Module(name="n")
def kind(f):
    try:
        f(); return "no exception"
    except Exception as e:
        return type(e).__name__
ref = [a]
expected = kind(lambda: ref.__setitem__(slice(0, 1), n))        # TypeError
observed = kind(lambda: ir.modules.__setitem__(slice(0, 1), n))
if observed != expected:
    print("C16 violated: ir.modules[0:1] = n raises %s, list raises %s" % (observed, expected))
    sys.exit(1)
sys.exit(0)
