"""C16: two nodes of one module that carry the same UUID (here the nil UUID):
discarding the second raises KeyError and leaves it half-removed; set.discard
never raises."""
import sys, uuid; sys.path.insert(0, "/tmp/mutkit")
import gtirb_from_repo
gtirb = gtirb_from_repo.load()
ir = gtirb.IR(); m = gtirb.Module(name="m", ir=ir)
nil = uuid.UUID(int=0)
s = gtirb.Section(name="s", uuid=nil, module=m)
y = gtirb.Symbol(name="y", uuid=nil, module=m)      # accepted without complaint
bad = []
m.sections.discard(s)
try:
    m.symbols.discard(y)
except Exception as e:
    bad.append("m.symbols.discard(y) raised %s(%s)" % (type(e).__name__, e))
if (y in m.symbols) != (y.module is m):
    bad.append("y in m.symbols=%s but y.module is m=%s; symbols_named('y')=%s"
               % (y in m.symbols, y.module is m, list(m.symbols_named("y"))))
if bad:
    print("C16 violated (discard of a member raises and leaves it half-removed):")
    for b in bad:
        print("  -", b)
    sys.exit(1)
sys.exit(0)
