"""C16: slice assignment whose right-hand side lists the same module twice."""
import sys; sys.path.insert(0, "/tmp/mutkit")
import gtirb_from_repo
gtirb = gtirb_from_repo.load()

def consistent(ir):
    errs = []
    mods = list(ir.modules)
    if len({id(m) for m in mods}) != len(mods):
        errs.append("a module is listed twice")
    for m in mods:
        if m.ir is not ir:
            errs.append("%s is listed but .ir is %s" % (m.name, "None" if m.ir is None else "another IR"))
        if ir.get_by_uuid(m.uuid) is not m:
            errs.append("%s is listed but missing from the UUID table" % m.name)
    listed = {m.uuid for m in mods}
    for u, n in ir._local_uuid_cache.items():
        if isinstance(n, gtirb.Module) and u not in listed:
            errs.append("%s is in the UUID table (ir set: %s) but not listed" % (n.name, n.ir is ir))
    return errs

bad = []
# (a) a fresh module listed twice
ir = gtirb.IR(); a, b, c = (gtirb.Module(name=n, ir=ir) for n in "abc")
n = gtirb.Module(name="n")
try:
    ir.modules[0:1] = [n, n]          # list: [n, n, b, c]; moving wrapper: [n, b, c]
    outcome = "ok"
except Exception as e:
    outcome = type(e).__name__
errs = consistent(ir)
if errs:
    bad.append("ir.modules[0:1] = [n, n] -> %s; modules=%s; %s" % (outcome, [m.name for m in ir.modules], "; ".join(errs)))

# (b) a module of another IR listed twice
ir = gtirb.IR(); a, b, c = (gtirb.Module(name=n, ir=ir) for n in "abc")
ir2 = gtirb.IR(); x = gtirb.Module(name="x", ir=ir2)
try:
    ir.modules[0:0] = [x, x]          # nothing is even replaced here
    outcome = "ok"
except Exception as e:
    outcome = type(e).__name__
errs = consistent(ir) + consistent(ir2)
if errs or x.ir is None:
    bad.append("ir.modules[0:0] = [x, x] -> %s; modules=%s, ir2.modules=%s; %s" % (outcome, [m.name for m in ir.modules], [m.name for m in ir2.modules], "; ".join(errs)))

# (c) the replaced element itself listed twice: succeeds silently, drops b
ir = gtirb.IR(); a, b, c = (gtirb.Module(name=n, ir=ir) for n in "abc")
try:
    ir.modules[0:1] = [a, a]
    outcome = "ok"
except Exception as e:
    outcome = type(e).__name__
errs = consistent(ir)
if errs:
    bad.append("ir.modules[0:1] = [a, a] -> %s; modules=%s; %s" % (outcome, [m.name for m in ir.modules], "; ".join(errs)))

if bad:
    print("C16 violated (slice assignment with a repeated value):")
    for x_ in bad:
        print("  -", x_)
    sys.exit(1)
sys.exit(0)
