"""C03: slice assignment on ir.modules whose value lists one module (not yet in
this list) twice.  ListWrapper.__setitem__ deregisters the replaced elements,
then runs _add for every value; the second _add of the same module finds
m._ir is this IR and calls self.remove(m), which raises ValueError because m
is not in the underlying list yet.  The replaced modules stay listed but are no
longer found; the new module is found but not listed."""
import sys

sys.path.insert(0, "/tmp/mutkit")
import gtirb_from_repo

gtirb = gtirb_from_repo.load()
bad = []

# (a) pure insertion, nothing replaced
ir = gtirb.IR()
gtirb.Module(name="a", ir=ir)
m = gtirb.Module(name="fresh")
try:
    ir.modules[0:0] = [m, m]
    raised = None
except Exception as e:
    raised = type(e).__name__
listed = list(ir.modules)
if (m in listed) != (ir.get_by_uuid(m.uuid) is m):
    bad.append(
        "(a) modules[0:0] = [m, m] raised %s: m listed=%s but get_by_uuid -> %s"
        % (raised, m in listed, type(ir.get_by_uuid(m.uuid)).__name__)
    )

# (b) replacing an element: the old element stays listed, but is not found
ir = gtirb.IR()
old = gtirb.Module(name="old", ir=ir)
sec = gtirb.Section(name="s", module=old)
ir2 = gtirb.IR()
n = gtirb.Module(name="foreign", ir=ir2)
try:
    ir.modules[0:1] = [n, n]
    raised = None
except Exception as e:
    raised = type(e).__name__
listed = list(ir.modules)
if old in listed and ir.get_by_uuid(old.uuid) is None:
    bad.append(
        "(b) modules[0:1] = [n, n] raised %s: 'old' is still in ir.modules %s "
        "but get_by_uuid(old.uuid) -> None, get_by_uuid(section) -> %s, "
        "old.ir -> %s"
        % (
            raised,
            [x.name for x in listed],
            ir.get_by_uuid(sec.uuid),
            old.ir,
        )
    )
if n not in listed and ir.get_by_uuid(n.uuid) is n:
    bad.append(
        "(b) 'foreign' is not in ir.modules but ir.get_by_uuid finds it; "
        "ir2.modules=%s" % [x.name for x in ir2.modules]
    )

for line in bad:
    print("VIOLATION", line)
sys.exit(1 if bad else 0)
