"""C03: ByteInterval._BlockSet.update reads the owning IR (node_ir) BEFORE it
consumes its iterable arguments.  If the iterable is lazy and the interval is
re-homed while it is consumed (a public mutation nested in the sequence), the
new blocks are registered in the IR the interval USED to belong to."""
import sys

sys.path.insert(0, "/tmp/mutkit")
import gtirb_from_repo

gtirb = gtirb_from_repo.load()
bad = []


def world():
    ir = gtirb.IR()
    m = gtirb.Module(name="m", ir=ir)
    s = gtirb.Section(name="s", module=m)
    bi = gtirb.ByteInterval(size=8, section=s)
    return ir, m, s, bi


# (a) the interval moves to another IR while the argument is consumed
ir1, m1, s1, bi = world()
ir2, m2, s2, _ = world()
blk = gtirb.CodeBlock(size=1)


def blocks_a():
    bi.section = s2  # now owned by ir2
    yield blk


bi.blocks.update(blocks_a())
assert blk in bi.blocks and bi.ir is ir2
if ir1.get_by_uuid(blk.uuid) is not None:
    bad.append(
        "(a) block is attached to ir2 only, but ir1.get_by_uuid -> %s"
        % type(ir1.get_by_uuid(blk.uuid)).__name__
    )
if ir2.get_by_uuid(blk.uuid) is not blk:
    bad.append(
        "(a) block is reachable from ir2 (ir2 > m > s > bi > blk) but "
        "ir2.get_by_uuid -> %s" % ir2.get_by_uuid(blk.uuid)
    )

# (b) the interval is detached while the argument is consumed
ir1, m1, s1, bi = world()
blk = gtirb.DataBlock(size=1)


def blocks_b():
    bi.section = None
    yield blk


bi.blocks.update(blocks_b())
if ir1.get_by_uuid(blk.uuid) is not None:
    bad.append(
        "(b) interval (and block) detached from ir1, but ir1.get_by_uuid "
        "still -> %s" % type(ir1.get_by_uuid(blk.uuid)).__name__
    )

for line in bad:
    print("VIOLATION", line)
sys.exit(1 if bad else 0)
