"""C03: ListWrapper.__setitem__ computes the slice's indices BEFORE it
consumes the (possibly lazy) value iterable, but applies the slice object to
the list afterwards.  If consuming the iterable changes the list's length and
the slice has relative bounds (negative / open), the element that gets
deregistered is not the element that gets replaced."""
import sys

sys.path.insert(0, "/tmp/mutkit")
import gtirb_from_repo

gtirb = gtirb_from_repo.load()
bad = []

ir = gtirb.IR()
a = gtirb.Module(name="a", ir=ir)
b = gtirb.Module(name="b", ir=ir)
d = gtirb.Module(name="d")
new = gtirb.Module(name="new")


def values():
    ir.modules.append(d)  # public mutation while the argument is consumed
    yield new


ir.modules[-1:] = values()
listed = list(ir.modules)
for m in (a, b, d, new):
    found = ir.get_by_uuid(m.uuid) is m
    if (m in listed) != found:
        bad.append(
            "module %r: in ir.modules=%s, m.ir is ir=%s, but get_by_uuid finds "
            "it=%s   (ir.modules=%s)"
            % (m.name, m in listed, m.ir is ir, found, [x.name for x in listed])
        )

for line in bad:
    print("VIOLATION", line)
sys.exit(1 if bad else 0)
