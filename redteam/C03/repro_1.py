"""C03: ListWrapper.insert runs the ownership/UUID hooks before list.insert
validates the index.  An index list.insert rejects (>= 2**63, < -2**63, or a
non-integer) makes the call raise, but the module is already registered in the
IR's UUID table (and already taken out of the list/IR that held it)."""
import sys

sys.path.insert(0, "/tmp/mutkit")
import gtirb_from_repo

gtirb = gtirb_from_repo.load()
bad = []

# (a) fresh module
ir = gtirb.IR()
gtirb.Module(name="a", ir=ir)
m = gtirb.Module(name="fresh")
try:
    ir.modules.insert(2**63, m)
    raised = None
except Exception as e:  # OverflowError, as list.insert raises
    raised = type(e).__name__
if m not in list(ir.modules) and ir.get_by_uuid(m.uuid) is not None:
    bad.append(
        "(a) insert(2**63, m) raised %s; m is not in ir.modules but "
        "ir.get_by_uuid(m.uuid) -> %s (m.ir is ir: %s)"
        % (raised, type(ir.get_by_uuid(m.uuid)).__name__, m.ir is ir)
    )

# (b) a module the IR already owns, with a subtree
ir = gtirb.IR()
a = gtirb.Module(name="a", ir=ir)
b = gtirb.Module(name="b", ir=ir)
s = gtirb.Section(name="s", module=b)
try:
    ir.modules.insert(2**64 - 1, b)
except OverflowError:
    pass
if b not in list(ir.modules) and (
    ir.get_by_uuid(b.uuid) is b or ir.get_by_uuid(s.uuid) is s
):
    bad.append(
        "(b) insert(2**64-1, b) raised; b left ir.modules (%s) but "
        "get_by_uuid still finds b and its section"
        % [x.name for x in ir.modules]
    )

# (c) a module of another IR: it is taken away from ir2 and half-attached
ir = gtirb.IR()
ir2 = gtirb.IR()
c = gtirb.Module(name="c", ir=ir2)
try:
    ir.modules.insert(-(2**63) - 1, c)
except OverflowError:
    pass
if c not in list(ir.modules) and ir.get_by_uuid(c.uuid) is c:
    bad.append(
        "(c) failed insert of ir2's module: ir.get_by_uuid finds it although "
        "ir.modules=%s, ir2.modules=%s"
        % ([x.name for x in ir.modules], [x.name for x in ir2.modules])
    )

# (d) a second, valid attempt does not behave like a first one
ir = gtirb.IR()
m = gtirb.Module(name="m")
try:
    ir.modules.insert(2**63, m)
except OverflowError:
    pass
try:
    ir.modules.insert(0, m)
    second = "ok"
except Exception as e:
    second = "%s" % type(e).__name__
if second != "ok":
    bad.append("(d) retry insert(0, m) after the failed call raised " + second)

for line in bad:
    print("VIOLATION", line)
sys.exit(1 if bad else 0)
